#!/bin/sh
# mk_mutant_task.sh <PROP>  -- create a scratch worktree /tmp/mut/<PROP> of /repo HEAD and print the sub-agent prompt
set -u
P="$1"
W=/tmp/mut/$P
[ -d "$W" ] || git -C /repo worktree add --detach "$W" HEAD >/dev/null 2>&1 || { echo "worktree failed" >&2; exit 2; }
mkdir -p /tmp/mutout/$P/A /tmp/mutout/$P/B
PROP=$(python3 - "$P" <<'PY'
import json,sys
for l in open('/verif/properties.jsonl'):
    p=json.loads(l)
    if p['id']==sys.argv[1]:
        keep={k:p[k] for k in ('id','title','statement','quantifier','why_tests_cant','anchors') if k in p}
        print(json.dumps(keep,indent=1))
PY
)
cat <<EOT
You are helping to evaluate a verification effort by producing realistic, subtle regressions ("seeded changes") in a Go library.

Your scratch copy of the library (github.com/evanoberholster/imagemeta, a Go library that extracts Exif/XMP metadata from JPEG, HEIC/AVIF/CR3, TIFF, PNG and raw files, sniffs image types and computes perceptual hashes) is the git worktree at $W . Work ONLY inside $W and write your results ONLY to /tmp/mutout/$P/ . Never read, list or modify /verif, and never modify /repo (the worktree's parent) -- your work must be independent of whatever verification machinery exists elsewhere.

Every shell command needs this environment (there is no network; modules are vendored in the module cache):
  export GOFLAGS=-mod=mod GOPROXY=off GOSUMDB=off GOTOOLCHAIN=local

The property under study (this is all you are given about it):

$PROP

Task: produce TWO independent changes, A and B, to the library's non-test source code. Each change must
  1. break the property above (make the library violate it for some input / schedule / history / fault point the property quantifies over),
  2. still compile: both \`go build ./...\` and \`go build -tags verif ./...\` succeed (the library has small build-tag-guarded hook calls such as verifhook.Emit/vt(...); leave them in place),
  3. still pass the complete existing test suite: \`go test -vet=off -count=1 ./...\` passes with the change,
  4. be realistic: the kind of slip, off-by-one, wrong operand, dropped guard, mis-ordered statement, wrong reuse of state, or incomplete refactoring a maintainer could plausibly commit -- not an obviously malicious special case such as \`if input == magic\`,
  5. need something SPECIFIC to manifest (a particular interleaving, a fault at a particular point, a multi-step sequence of operations, an unusual but legal input, a boundary size, or two cooperating sites that each look fine alone) -- NOT something ordinary use on typical files would expose at once. A and B should be different in mechanism and touch different code where possible.

For each change L in {A, B} write into /tmp/mutout/$P/L/ :
  - patch.diff : output of \`git diff\` in $W with only that change applied (must apply with \`git apply\` to the clean worktree)
  - zz_demo_<l>_test.go : a demonstration Go test (function name TestZZDemo<L>, lower-case l in the file name) that FAILS with the change applied and PASSES on the unchanged library. It goes into one package directory of the library (package clause must match that directory; external test package name_test is fine too). It must be self-contained (build its input bytes itself or use files already in the repository).
  - meta.json : {"property": "$P", "summary": "...what the change does...", "needs_to_manifest": "...what specific input/sequence/schedule is needed and why ordinary use does not show it...", "files_touched": [...], "demo_dest": "<package dir relative to repo root where the demo test file goes>", "demo_cmd": "go test -vet=off -count=1 -run TestZZDemo<L> ./<pkgdir>/", "commands": [the commands you ran to verify]}

Verify ALL of this yourself before finishing, for each change separately: (a) on the clean worktree with the demo file copied in, demo_cmd passes; (b) with the patch applied: go build ./... ok, go build -tags verif ./... ok, the demo fails, and with the demo file removed the whole suite \`go test -vet=off -count=1 ./...\` passes. Record what you ran. If a candidate fails any of these, pick another one.

When finished leave the worktree clean (\`git -C $W checkout -- . && git -C $W clean -fdq\`). Your final message: for A and B one paragraph each (what, where, what it needs to manifest) and the verification results. Do not include anything else.
EOT
