#!/bin/sh
# import_mutant.sh <PROP> <LETTER> <demo_dest_dir> <demo_cmd>   -- take /tmp/mut/<PROP>/OUT/<LETTER> into /verif/seeded/<PROP>-<LETTER> and confirm it
set -u
P="$1"; L="$2"; DEST="$3"; CMD="$4"
S=/tmp/mutout/$P/$L; D=/verif/seeded/$P-$L
mkdir -p "$D"
cp "$S"/*_test.go "$D"/ 2>/dev/null
[ -f "$D/patch.diff" ] || cp "$S/patch.diff" "$D/patch.diff"
jq --arg dest "$DEST" --arg cmd "$CMD" --arg p "$P" '. + {breaks: $p, demo_dest: $dest, demo_cmd: $cmd}' "$S/meta.json" > "$D/meta.json" || exit 2
/verif/tools/confirm_mutant.sh "$D" | tee "$D/confirm.log"
