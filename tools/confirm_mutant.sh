#!/bin/sh
# Confirm a seeded change in a scratch worktree of /repo's HEAD:
#   builds, existing suite passes with it, demo fails with it, demo passes without it.
# usage: confirm_mutant.sh /verif/seeded/<id>    (needs patch.diff, meta.json with demo_dest + demo_cmd, demo files *_test.go)
set -u
export GOFLAGS=-mod=mod GOPROXY=off GOSUMDB=off GOTOOLCHAIN=local
D="$1"
W=$(mktemp -d /tmp/confirm.XXXXXX)
git -C /repo worktree add --detach "$W/wt" HEAD >/dev/null 2>&1 || { echo "worktree failed"; exit 2; }
cd "$W/wt"
DEST=$(jq -r .demo_dest "$D/meta.json")
CMD=$(jq -r .demo_cmd "$D/meta.json")
res=0
git apply "$D/patch.diff" || { echo "CONFIRM: patch does not apply"; res=2; }
if [ $res = 0 ]; then
  go build ./... >/dev/null 2>&1 || { echo "CONFIRM: build fails with change"; res=2; }
  if go test -vet=off -count=1 ./... > "$W/suite.log" 2>&1; then echo "CONFIRM: suite passes with change"; else echo "CONFIRM: SUITE FAILS with change"; tail -5 "$W/suite.log"; res=2; fi
  cp "$D"/*_test.go "$DEST"/ 2>/dev/null
  if sh -c "$CMD" > "$W/demo1.log" 2>&1; then echo "CONFIRM: DEMO PASSES with change (bad)"; res=2; else echo "CONFIRM: demo fails with change"; fi
  git apply -R "$D/patch.diff"
  if sh -c "$CMD" > "$W/demo2.log" 2>&1; then echo "CONFIRM: demo passes without change"; else echo "CONFIRM: DEMO FAILS without change (bad)"; tail -5 "$W/demo2.log"; res=2; fi
fi
cd /
git -C /repo worktree remove --force "$W/wt"
rm -rf "$W"
exit $res
