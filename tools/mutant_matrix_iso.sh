#!/bin/sh
# mutant_matrix_iso.sh [tier] -- like mutant_matrix.sh, but on a scratch copy of /verif (committed HEAD) and a scratch
# worktree of /repo, so that /repo and /verif stay usable meanwhile. Writes /verif/out/mutant_matrix.txt and
# seeded/<id>/detected.txt; removes the scratch copies at the end.
set -u
T="${1:-quick}"
V=/tmp/vmx; R=/tmp/repomx
rm -rf "$V"; git -C /repo worktree remove --force "$R" 2>/dev/null
git -C /repo worktree add --detach "$R" HEAD >/dev/null 2>&1 || { echo "worktree failed"; exit 2; }
mkdir -p "$V" && git -C /verif archive HEAD | tar -x -C "$V" || exit 2
sed -i "s#=> /repo#=> $R#" "$V/harness/go.mod"
OUT=/verif/out/mutant_matrix.txt
[ -n "${ONLY:-}" ] || : > "$OUT"     # ONLY="C01-D C03-A ...": re-run just these and replace their lines
for D in /verif/seeded/*/; do
  ID=$(basename "$D")
  if [ -n "${ONLY:-}" ]; then case " $ONLY " in *" $ID "*) sed -i "/^$ID /d" "$OUT";; *) continue;; esac; fi
  P=$(jq -r '.breaks // .property' "$D/meta.json")
  if ! git -C "$R" apply --check "$D/patch.diff" 2>/dev/null; then echo "$ID $P PATCH-DOES-NOT-APPLY" | tee -a "$OUT"; continue; fi
  git -C "$R" apply "$D/patch.diff"
  RES=$(cd "$V" && VERIF_EVIDENCE_DIR=/tmp/verif-mutant-evidence ./check.sh "$P" "$T" 2>&1 | grep -aE "^(VIOLATION|MACHINERY|RESULT|  key)" | cut -c1-260)
  git -C "$R" checkout -- .
  if echo "$RES" | grep -q "^VIOLATION"; then S=DETECTED; elif echo "$RES" | grep -q "^MACHINERY"; then S=MACHINERY; else S=MISSED; fi
  KEYS=$(echo "$RES" | grep -a "^  key" | head -3 | sed 's/ what=.*//' | tr '\n' ' ')
  echo "$ID $P $S $KEYS" | tee -a "$OUT"
  printf "%s by ./check.sh %s %s\n%s\n" "$S" "$P" "$T" "$(echo "$RES" | head -4)" > "$D/detected.txt"
done
git -C /repo worktree remove --force "$R"; rm -rf "$V"
echo "matrix done: $(grep -c DETECTED $OUT) detected, $(grep -c MISSED $OUT) missed, $(grep -c MACHINERY $OUT) machinery"
