#!/bin/sh
# try_mutant.sh <seeded-id> <PROP> [tier]  -- apply /verif/seeded/<id>/patch.diff to /repo, run the check, revert. Prints the tail.
set -u
ID="$1"; P="$2"; T="${3:-quick}"
cd /repo || exit 2
git diff --quiet || { echo "repo dirty"; exit 2; }
git apply "/verif/seeded/$ID/patch.diff" || { echo "patch does not apply"; exit 2; }
( cd /verif && VERIF_EVIDENCE_DIR=/tmp/verif-mutant-evidence ./check.sh "$P" "$T" 2>&1 | grep -aE "^(VIOLATION|KNOWN|RESULT|MACHINERY|  key)" | cut -c1-400 | head -${LINES_MAX:-12} )
git -C /repo checkout -- .
git -C /repo status --short | head -3
