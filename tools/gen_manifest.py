#!/usr/bin/env python3
"""Regenerates /verif/MANIFEST.json from the table below (single source of truth for the interface)."""
import json, subprocess, sys
CLAIMED = {
 # id: (technique, level text, level note, design_ref)
 "C12": ("TLA+ spec TiffScan model-checked by TLC (exhaustive prefixes) + TLC-generated cases replayed on tiff.ScanTiffHeader + hook traces validated by Trace_TiffScan",
         "TLC decides Correct/NoSigNoFind/NoSkip/Progress/Terminates on the design for every prefix over the 5-symbol signature alphabet up to the bound and both header kinds; every terminal state is replayed on the real function (offset, byte order, first-IFD offset, reader position) and recorded executions (incl. seeded random streams of several KiB) must be behaviours of the same spec. Exhaustive small scope + trace conformance is the right level for a pure scanning loop whose failure modes are overlap/skip errors.",
         "Trusted: TLC, the symbol->byte concretiser (bytes outside the alphabet are interchangeable), the tiff hooks (3 one-line events). Prefix lengths beyond the bound are covered only by random streams.",
         "DESIGN.md section 4 C12"),
 "C09": ("TLA+ spec ImageType (decision list vs. independent signature table) model-checked by TLC over all single-byte perturbations and byte-range crossovers of 27 canonical headers + every enumerated header replayed on Buf/Scan/ScanBuf/ReadAt",
         "TLC checks Sound/Complete/Total between two formulations of the classification on ~280k distinct 24-byte headers; every header is replayed on all sniffing entry points with signature-bearing suffixes (prefix-only), stream-not-consumed and short-stream checks. Exhaustive small-scope enumeration is the right level for a pure 24-byte decision function.",
         "Trusted: TLC, the signature table (written from the format documents; two documented design decisions included), the batch op. Arbitrary 24-byte strings far from any canonical header are not enumerated.",
         "DESIGN.md section 4 C09"),
 "C10": ("TLA+ spec Jpeg (marker scanner with the code's offset arithmetic vs. layout arithmetic) model-checked by TLC + emitted cases replayed on jpeg.ScanJPEG with recording callbacks + hook traces validated by Trace_Jpeg (closed traces, invariants evaluated at every event)",
         "TLC decides ExifArgs/XmpBytes/Resync/AbsOff/AllFound/NoFalse/InOrder/Progress/Terminates for all marker sequences up to the bound x XMP consumption x lead; each terminal state is replayed (callback headers, bytes readable inside callbacks, EOF position of the XMP reader, stream position after DQT), and every recorded execution must be a behaviour of the spec with equal offsets at every marker/callback event.",
         "Trusted: TLC, the JPEG writer (gen/jpeg.go), the jpeg hooks. Well-formed streams only (the property's domain); the Exif callback consumes its declared length.",
         "DESIGN.md section 4 C10"),

 "C03": ("TLA+ spec Exif (forward-only IFD reader: sorted pending list, position bookkeeping, three hand-off variants) model-checked by TLC; every terminal state (logical record x forward layout x padding x IFD0 offset x variant, plus pending-list pressure 80-85 tags) concretised to TIFF bytes in both byte orders with seeded in-range values and replayed on Decode/DecodeTiff/Parse/ScanTiffHeader+DecodeTiff/DecodeJPEG/DecodeIfd; reported fields compared with the record the specification says is reported; hook traces of the IFD reader (begin/hdr/ins/drop/nextq/loop/val/end) validated by the closed trace acceptor Trace_Exif, which re-uses the specification's own actions and evaluates Sorted/Forward/NoStaleIdx at every event",
         "TLC decides Sorted/Forward/NoStaleIdx/PosInv/NoDropWF/Exact/DropsOnlyFull/Progress for every record of up to MaxPick entries over one representative per encoding class and directory, in every forward block order; the concretiser binds classes to real tags (all supported fields over seeds) and the real decoders must report exactly the expected record (exact for integers/strings/timestamps incl. sub-seconds and zone, float32/float64 precision for rationals).",
         "Trusted: TLC, the TIFF writer and value binding (gen/tiff.go, written from TIFF 6.0/Exif 2.31), the comparison code. Records larger than MaxPick (2 quick, 3 thorough) only with foreign filler; values > 1000 bytes, shared value blocks and reverse layouts are outside the domain. The documented only-if-the-other-field-is-empty rules (CameraOwnerName/Artist, BodySerialNumber/CameraSerialNumber) are modelled by stream order; a record carrying both serial-number tags leaves CameraSerial undetermined.",
         "DESIGN.md section 4 C03"),
 "C06": ("TLA+ spec Exif (hand-off variants tiff/jpeg/ifd with PosInv) model-checked by TLC; each generated payload embedded UNCHANGED by independent container writers in TIFF, JPEG APP1, PNG eXIf, CR3 CMT1 (and split CMT1/CMT2/CMT4), HEIF with three levels of surrounding content (incl. 64-bit box sizes) and replayed on every decode entry point; results compared with the specified record, pairwise with the bare TIFF, and image type with the container",
         "For every TLC-generated (record, forward layout) in both byte orders: fields(decode(c(p))) equals the specified record and equals fields(decode(TIFF(p))) for c in {JPEG, PNG, CR3, CR3-split, HEIF} and entry points Decode, DecodeJPEG, DecodeTiff, DecodePng, DecodeCR3, DecodeHeif, exif2.Parse, isobmff.Reader+DecodeIfd; ImageType is the container's.",
         "Trusted: the container writers (gen/containers.go, from the format documents), TLC. Surroundings carry no TIFF signature before the payload (HEIF is found by signature search). AVIF item path (iinf/iloc/mdat) is not part of the property's container list and is explored separately.",
         "DESIGN.md section 4 C06"),
 "C07": ("TLA+ spec Exif is parametric in byte order (Expected does not mention it); every TLC-generated case is concretised twice (II and MM) from the same abstract layout and value binding, embedded in every container, and the two decodes compared field by field (and with the specified record)",
         "For every generated record/layout/container/entry point: decode(II) == decode(MM) on every field, for all embedded classes (BYTE, ASCII 1-3 chars, SHORT, LONG) and out-of-line classes; a one-sided error (one order fails, the other decodes) is a violation.",
         "Trusted: the TIFF writer's two encoders share everything but binary.ByteOrder. Same bounds as C03/C06.",
         "DESIGN.md section 4 C07"),

 "C08": ("TLA+ spec Chunk (reader/environment model: ReadFull design vs. the single-Read deviation, delivery classes full/short-by-one/half/one-byte, data-with-EOF) model-checked by TLC; every run of the design emitted as a delivery pattern and replayed at every Read-call position of the recorded read-call script of each entry point x input on a scripted io.ReadSeeker; value and error compared with the same build on a reader that always fills the buffer",
         "TLC decides ChunkFree/NoPhantom/Progress/Terminates for every delivery choice up to MaxCalls non-full deliveries (and shows the single-Read deviation violates them); the patterns are placed at every call position (first 24/64 calls) of every unbuffered entry point (exif2.Parse, DecodePng, ScanPngHeader, PreviewCR3, imagetype.Scan/ReadAt, ScanTiffHeader and ScanJPEG on raw readers, ParseXmp) and sampled on buffered ones, plus 10 global schedules, over generated files in every container, their truncations and the repository samples.",
         "Trusted: the scripted reader (ops/worker.go), TLC. Not exhaustive over schedules: patterns of <= MaxCalls (2 quick / 4 thorough) consecutive short deliveries; inputs are a seeded sample.",
         "DESIGN.md section 4 C08"),

 "C01": ("TLA+ spec Fault (input grammar with malformation operators on field roles + truncation/fault environment; guarded reader design vs. the named deviations `unchecked` and `trusting`) model-checked by TLC; every emitted (malformation plan, truncation, fault kind) applied to the field maps of generated files in every container (incl. an all-tags payload) and run on every corresponding public entry point in isolated workers; plus every truncation point of the unmutated files, seeded cuts/mutations of the repository samples, random bytes and long-token XMP packets; oracle: the call returns",
         "TLC decides NoOOB/NoStall/NoBlowup/Returns for the guarded design over every plan of <= MaxMal boundary-value rewrites x {no cut, cut before / +1 / at last byte of a field role} x {EOF, error} and shows both deviations violate them; ~400k calls per quick run over Decode/DecodeTiff/DecodeCR2/DecodeHeif/DecodeJPEG/DecodePng/DecodeCR3/PreviewCR3/Parse/ScanJPEG/ScanTiffHeader/ScanPngHeader/isobmff.Reader/ParseXmp/imagetype.* must return (no recovered panic, no dead worker, no watchdog kill).",
         "Trusted: the field mappers (gen/fieldmap.go), the worker isolation. Not exhaustive over byte strings: structure-aware boundary classes on the generator's own files + seeded random/mutated inputs; inputs <= 128 KiB.",
         "DESIGN.md section 4 C01"),
 "C02": ("Same TLA+ spec Fault (NoStall: no file-driven loop iteration without consumption; Returns under fairness) + Jpeg/TiffScan Progress properties; the same corpus as C01 replayed through a counting io.ReadSeeker: bytes requested <= 4*len+64KiB, no call killed by the progress watchdog, hook-event stall detection (2M events)",
         "For every generated malformation/truncation case and sample: the entry point returns within the watchdog and the sum of Read request sizes stays within 4*len+64KiB; the model shows a `trusting` reader (size/count 0 drives a loop) violates NoStall.",
         "Trusted: the counting reader. Watchdog = 8 s without a result from the worker (generous: normal calls take microseconds).",
         "DESIGN.md section 4 C02"),

 "C14": ("TLA+ spec Fault (ghost allocation counter: NoBlowup; `trusting` deviation violates it) model-checked by TLC; every size-like field of every generated container file rewritten with each large value class, samples with mutations, long-token XMP and random bytes run one call at a time between two runtime.ReadMemStats",
         "For ~36k generated cases x entry points (incl. PreviewCR3, isobmff.Reader with preview callback): TotalAlloc delta <= 4 MiB + 16*len; a worker that dies allocating or needs > 15 s is a violation.",
         "Trusted: runtime.MemStats, single-goroutine workers with GC off. Only fields the generator's field map knows are rewritten.",
         "DESIGN.md section 4 C14"),
 "C15": ("TLA+ spec Log (log steps as stuttering steps, level-guarded marshalers over file-declared counts, writer failure, default level silent; deviations `unguarded` and `print` violate MarshalOK/Silent) model-checked by TLC; a sample of the fault corpus biased to count-field rewrites is replayed at the default configuration and under SetLogger for 7 levels x {discard, buffer, failing writer}; value/error compared with the default run, fd 1+2 byte count at the default configuration",
         "For every sampled case and entry point: result under every level/writer equals the default-level result, no panic; 0 bytes on fd 1/2 at the default level.",
         "Trusted: fstat-based fd size accounting of the worker. Quick runs all writers at trace/info and a third of the other level x writer pairs.",
         "DESIGN.md section 4 C15"),

 "C17": ("TLA+ spec EnumTables (documented name tables of 21 exported enumerations + the offset-table stringer mechanism with each type's guard; the signed-type-guarded-only-from-above deviation violates NoOOB) model-checked by TLC over every value of every domain; the tables are emitted and the real String()/Extension()/FromString/IdentifyNamespace/UnmarshalText are run on the WHOLE domain of every type and every documented name; TagName/tag.ID.String over all IfdType x 2^16 ids",
         "Exhaustive over the finite domains (2^8, 2^16, signed 16-bit): String() returns for every value, equals the documented name for documented values and the documented fallback otherwise; parsing a documented name gives the value back for ImageType, XMP namespaces and the text-unmarshalable meta enums; ~17 M TagName calls return.",
         "Trusted: the documented tables in spec/MC_EnumTables.tla (reviewed against the doc comments / ExifTool tables; two discrepancies on the pinned tree were library defects and were fixed). Names of the large tag-id maps and camera-model maps are checked for totality only.",
         "DESIGN.md section 4 C17"),

 "C16": ("TLA+ spec Codec (ExposureBias Pack/Unpack and text form over all 2^16 encodings; MessagePack integer format lengths vs. size hint over all 16-bit values; enumeration of every string of length <= MaxLen over the parsers' branching alphabet; UUID text forms x malformation classes) model-checked by TLC; the emitted texts/strings/plans are run through the real MarshalText/UnmarshalText/MarshalJSON/encoding-json/MarshalMsg/UnmarshalMsg/Msgsize/ParseString/Encode/Decode",
         "Exhaustive for ExposureBias (text equals the specified text, Unmarshal(Marshal(v)) = v, idempotence, JSON) and for the MessagePack round trip + Msgsize upper bound of 16 integer-backed types over their whole 8/16-bit domains; every decoder (24 entry points incl. msgp and json paths) returns on ~6k (quick) / ~90k (thorough) enumerated strings and their embeddings; 6 UUID forms x 9 classes x 6 seeded values; k/100 fixed-point values for Aperture/FocalLength; structural codecs (PHash64/256 little-endian packing, Dimensions, FocusDistance, UUID) on symbolic distinct bytes and 20k seeded values.",
         "NOT decided by the specification: IEEE-754 text fidelity of arbitrary float32 values, NaN/Inf/denormal text forms (TLC has no floating point) - float-backed types are covered only at k/100 fixed-point values and by bit-exact MessagePack round trips of seeded bit patterns. PHash Encode/Decode get buffers of the required length.",
         "DESIGN.md section 4 C16"),

 "C11": ("TLA+ spec Bmff (box-stack reader on CR3-shaped trees: layout arithmetic vs. the code's remain bookkeeping; Contain/RemainOK/AfterTop/Payload/AllHanded/Progress) model-checked by TLC over every tree within the bounds incl. 64-bit sizes and one size lie; each terminal state concretised and walked with isobmff.Reader + recording callbacks (generic consumers); hook traces (open/close/adv/read/cb/ret) of those runs, of the repository's ISOBMFF samples and of malformed/truncated files validated by the OPEN trace acceptor Trace_Bmff with Contain evaluated at every event",
         "TLC decides the invariants for all trees of <= MaxKids metadata children x <= MaxTail top-level boxes x 64-bit form x lie x XMP consumption; for well-formed trees the real reader must stand at the next top-level box after every call and hand each callback exactly payload(T, box) with the directory type of the box; for EVERY recorded execution (~25k traces, 1M events per quick run) the position never passes the declared end of any open box and every successful top-level call ends at the end of its box.",
         "Trusted: TLC, the tree writer (gen/bmfftree.go), the isobmff hooks (add-only one-line events). Boxes shorter than 16 bytes, HEIF item paths and resynchronisation after a lie are judged by the open acceptor only. TLC integers are 32 bit: sizes >= 2^29 are clamped by the harness.",
         "DESIGN.md section 4 C11"),

 "C13": ("TLA+ spec Xmp (token reader with look-ahead windows growing in fixed steps up to the 1538-byte buffer: ReadAttrValue/GrowAttr, ReadTagValue/GrowValue, BufferFull; Exact/FormEq/GrowBound/Terminates; the `edge` deviation violates Exact) model-checked by TLC; every emitted packet (property x form x quote x white space x boundary lengths; pairs; one property at EVERY value length in both forms; tokens beyond the guarantee) concretised with seeded values, arrays and junk prefixes and parsed by xmp.ParseXmp",
         "For ~6.7k (quick) / ~12k (thorough) packets: every written simple property (tiff, exif, aux, xmp, xmpMM namespaces; strings, integers, rationals, dates in 3 layouts, UUID forms, exposure bias) is reported with exactly its value, nothing else is reported, array items keep document order, the attribute form equals the element form at every length 1..1030 (1..1600), and tokens longer than the guaranteed window give the value or an error, never a wrong value.",
         "Trusted: the XMP writer (gen/xmp.go). White space is SP/LF runs between tokens only; namespace prefixes are the conventional ones; values hold no markup characters; crs/dc scalar properties and xmpMM:History structures are not generated.",
         "DESIGN.md section 4 C13"),

 "C04": ("TLA+ spec Pools (pooled objects as labelled cells, sync.Pool Get = any pooled object or a new one, calls as Get/Write/TzLookup/Read/Put programs; Pure/Exclusive over every history; the `staleIdx` deviation violates Pure) model-checked by TLC; every emitted history mapped onto a catalogue of ~100 concrete calls and replayed in workers pinned to one P with GC off, interleaved with hook-driven poisoning of every pooled buffer; each result compared with the same call in a fresh process; held results re-serialised after later calls; caller-owned bufio.Reader re-used across ScanJPEG calls",
         "For 400 (quick) / 512 (thorough) histories of 3 calls plus 100 caller-owned-reader sequences: the result of every call (metadata struct incl. zone names, hash value, error, panic) equals the fresh-process result whatever was decoded before and whatever the pooled exif2 buffer / bufio readers / pixel buffers contain (zero, 0xFF/NaN, +-1e30 patterns); previously returned results are unchanged.",
         "Trusted: the poison hooks (verif-tagged files), GOMAXPROCS=1/GOGC=off placement. The catalogue samples the input classes; histories are exhaustive only at the abstract level.",
         "DESIGN.md section 4 C04"),
 "C05": ("TLA+ spec Pools with 2 concurrent call processes at the granularity of the shared-state steps (pool Get/Put, RLock lookup, RUnlock, Lock, insert): Exclusive/WriterExclusive/LockOK/Pure/Returns in every interleaving (deviations `earlyPut`, `rlockWrite` violate them) model-checked by TLC; harness built with the Go race detector: batches of 4/16/64 goroutines x GOMAXPROCS 1/2/4/16 run mixed catalogue calls incl. 112 never-seen zone offsets, ScanJPEG on raw readers next to Decode, all hash functions; race detector silent, no crash/blocking, every result equal to the fresh-process sequential result",
         "TLC: all interleavings of 2 processes x 1 call (quick) / 2 x 2 (thorough). Real code: 24 (120) batches x 3 (8) rounds under -race, halt_on_error; ~2.5k (~40k) concurrent calls compared with their sequential results.",
         "Interleavings on the real code are sampled by the scheduler (no gated replay of individual TLC interleavings was built); the race detector only reports races that occur.",
         "DESIGN.md section 4 C05"),

 "C19": ("TLA+ spec PHash (size guard as a total decision; quick-select + threshold + MSB-first bit assembly transcribed step by step; Hamming distance) model-checked by TLC (the `and` guard deviation violates GuardOK); every emitted record replayed on NewPHash64/64Alt/256/256Alt, MedianOfPixels*, Distance; plus storage-invariance (same picture at other origins / in larger backing images), constant images, repeatability; plus a numeric float64 DCT-II oracle outside the specification",
         "PARTIAL by design: decided by the specification and replayed exhaustively: acceptance/rejection for 4 functions x 5 kinds x 121 sizes x nil x origin variants (error iff not exactly the required size, never a panic, never a hash); the selection/threshold/bit-order logic on all sequences of length 4, 6 (8) over 4 values incl. ties (MedianOfPixels exact, fixed-size and float32 variants <= upper median); Hamming distance on boundary one-bit patterns, identity, complement, 3000 seeded dense pairs with symmetry and triangle inequality. History independence is C04's.",
         "NOT decided by the specification (no floating point in TLC): agreement of the coefficients with a DCT-II and tau-closeness of the two implementations; the harness checks 'bit set above the upper median / cleared below the lower median outside a margin' numerically for RGBA/NRGBA/Gray pictures only.",
         "DESIGN.md section 4 C19"),
 "C20": ("TLA+ spec YCbCr (integer index model of the portable and the vector loop nests and of the dispatcher; SameIdx/InBounds/Exits/RefInBounds for all (x,y) of every geometry; the `always` dispatch deviation violates SameIdx) model-checked by TLC; every geometry laid out byte for byte in guarded backing arrays and converted by transforms32.ImageToGray and transforms.Rgb2GrayFast; per-pixel luminance vs. the pixel at that coordinate and vs. the portable conversion, guard zones, independence from bytes around the planes, worker death",
         "For all 6 subsampling ratios x widths {64,256} x origins x luma/chroma stride paddings (144 quick / 540 thorough geometries x seeded plane contents): luminance within 2.0 of the value of the pixel at the same coordinate (float32 dispatcher and float64 path) and of the portable conversion; no write outside the destination, no modification of or dependence on bytes around the planes; no crash.",
         "The vector loop carries no hooks (assembly): binding is black-box with index-revealing layouts. The <= 2.0 tolerance is a numeric check of the harness. Only linux/amd64 with AVX2 exercises the vector path (evidence records whether it ran).",
         "DESIGN.md section 4 C20"),
}
NOT_APPLICABLE = {
 "C18": "Bit-for-bit equality of AVX and Go float32 DCT kernels and their error bound against the real DCT-II are IEEE-754 statements over 2^(32*64) inputs; TLA+/TLC has no floating point and the kernels have no state machine to specify (DESIGN.md section 5).",
}
PENDING = "check not yet built in this round (work in progress; will be claimed once its TLA+ spec and conformance binding exist)"
props = [json.loads(l) for l in open('/verif/properties.jsonl')]
hooks = subprocess.run(["git","-C","/repo","log","--format=%H %s"],capture_output=True,text=True).stdout.splitlines()
hook_commits = [l.split()[0] for l in hooks if l.split(' ',1)[1].startswith("verif hooks:")]
checks=[]
na=[]
for p in props:
    i=p["id"]
    if i in CLAIMED:
        t,lt,ln,ref=CLAIMED[i]
        checks.append({"property_id":i,"quick_cmd":f"./check.sh {i} quick","thorough_cmd":f"./check.sh {i} thorough",
          "evidence_file":f"/verif/evidence/{i}.json","replay_cmd_template":f"./check.sh {i} quick --replay {{path}}",
          "engine":"tlc-modelcheck+gen-replay+trace-validation",
          "level_claimed":{"category":"model_checking","text":lt,"design_ref":ref},"level_note":ln,"technique":t})
    else:
        na.append({"property_id":i,"reason":NOT_APPLICABLE.get(i,PENDING)})
m={"version":1,
 "setup_cmd":"cd /verif/harness && export GOFLAGS=-mod=mod GOPROXY=off GOSUMDB=off GOTOOLCHAIN=local && cp /repo/go.sum go.sum && mkdir -p ../out/bin && go build -tags verif -o ../out/bin/verif ./cmd/verif && go build -race -tags verif -o ../out/bin/verif-race ./cmd/verif",
 "hooks":{"guard":"verif","enable":"go build -tags verif (check.sh rebuilds harness+library from /repo's working tree on every invocation)",
   "baseline_off_cmd":"cd /repo && GOFLAGS=-mod=mod GOPROXY=off GOSUMDB=off GOTOOLCHAIN=local go test -json -vet=off -count=1 -timeout 25m ./...",
   "source_commits":hook_commits,"add_only":True},
 "engines":[
   {"name":"tlc-modelcheck","path":"/verif/spec","serves_properties":sorted(CLAIMED),"kind_free_text":"explicit TLA+ specifications checked exhaustively by TLC within stated bounds (invariants, action properties, liveness)"},
   {"name":"gen-replay","path":"/verif/harness","serves_properties":sorted(CLAIMED),"kind_free_text":"terminal states of the TLC runs are emitted as JSON cases, concretised to bytes and replayed on the real code in isolated worker processes; outcome compared with the specified one"},
   {"name":"trace-validation","path":"/verif/spec/Trace_*.tla","serves_properties":sorted(CLAIMED),"kind_free_text":"events recorded by build-tag-guarded hooks in /repo are validated by TLC against trace specs that reuse the operators/actions of the design specs"}],
 "checks":checks,
 "not_applicable":na,
 "notes":"Verdicts (exit 1) only for behaviour observed on the real code; machinery problems exit 2. known_findings.json lists recorded/fixed defects. See DESIGN.md."}
json.dump(m,open('/verif/MANIFEST.json','w'),indent=1)
print("claimed",sorted(CLAIMED),"na",len(na))
