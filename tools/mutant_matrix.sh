#!/bin/sh
# mutant_matrix.sh [tier] -- apply every seeded change to /repo in turn, run the check of the property it breaks,
# record whether it was detected (out/mutant_matrix.txt + seeded/<id>/detected.txt), and restore /repo.
set -u
T="${1:-quick}"
OUT=/verif/out/mutant_matrix.txt
: > "$OUT"
cd /repo || exit 2
git diff --quiet || { echo "repo dirty"; exit 2; }
for D in /verif/seeded/*/; do
  ID=$(basename "$D")
  P=$(jq -r '.breaks // .property' "$D/meta.json")
  if ! git apply --check "$D/patch.diff" 2>/dev/null; then echo "$ID $P PATCH-DOES-NOT-APPLY" | tee -a "$OUT"; continue; fi
  git apply "$D/patch.diff"
  RES=$(cd /verif && VERIF_EVIDENCE_DIR=/tmp/verif-mutant-evidence ./check.sh "$P" "$T" 2>&1 | grep -aE "^(VIOLATION|MACHINERY|RESULT|  key)" | cut -c1-260)
  git checkout -- .
  if echo "$RES" | grep -q "^VIOLATION"; then V=DETECTED; elif echo "$RES" | grep -q "^MACHINERY"; then V=MACHINERY; else V=MISSED; fi
  KEYS=$(echo "$RES" | grep -a "^  key" | head -3 | sed 's/ what=.*//' | tr '\n' ' ')
  echo "$ID $P $V $KEYS" | tee -a "$OUT"
  printf "%s by ./check.sh %s %s\n%s\n" "$V" "$P" "$T" "$(echo "$RES" | head -4)" > "$D/detected.txt"
done
git -C /repo status --short | head -3
