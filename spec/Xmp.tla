--------------------------------- MODULE Xmp ---------------------------------
(* Streaming XMP reader of package xmp (property C13; C02 progress).           *)
(*                                                                             *)
(* Abstract packet: junk prefix, <x:xmpmeta>, <rdf:RDF>, one rdf:Description    *)
(* whose simple properties are ITEMS [p, form, q, v, ws]:                       *)
(*   p     property id (namespace:name of a supported simple property)          *)
(*   form  "attr" (attribute of rdf:Description) | "elem" (child element)       *)
(*   q     quote character of an attribute: "dq" | "sq"                         *)
(*   v     length of the value in bytes (0 = the property's natural value)      *)
(*   ws    white space in front of the token: "sp" | "nl" | "nlsp" | "sp3" |     *)
(*         "run126" | "run127" | "run300" (long runs of blanks: the tag or      *)
(*         attribute then starts in the last bytes of the 128-byte look-ahead   *)
(*         window of the tag-header reader, or beyond it)                       *)
(*   c     content class of a text value: "plain" | "oq" (the value holds the   *)
(*         quote character that does NOT delimit it - legal XML - and, in an    *)
(*         element, both quote characters)                                      *)
(* Attributes precede elements (XML).  The reader consumes one token at a time  *)
(* through a look-ahead window that GROWS in fixed steps up to the size of its  *)
(* buffer (Buf = 1538): attribute values 256, +512; element values 512, +512.   *)
(* One action per step of the code: ReadAttrValue / GrowAttr, ReadTagValue /    *)
(* GrowValue, BufferFull.  A token is recognised in window w when the bytes the *)
(* reader must look at fit: an attribute value needs `="` + v + quote + 2 bytes *)
(* of look-ahead (to see `>` or `/>`); an element value needs `>` + v + `<`.    *)
(* Design: a token that fits a reachable window is returned whole; one that     *)
(* does not yields an error and ends the parse; NEVER a wrong value.  The       *)
(* deviation "edge" (code on the pinned tree) forgets the look-ahead bytes when *)
(* choosing the window and fails when the quote is the window's last byte.      *)
(* The deviation "hdrcut" (code on the pinned tree) parses a tag header from   *)
(* the window in which its '<' was found, so a tag that starts in the last     *)
(* bytes of the window is cut off.                                             *)
EXTENDS Integers, Sequences, FiniteSets, TLC, Json, CSV

CONSTANTS TextProps,   \* ids of text-valued properties (value length is free)
          FixedProps,  \* ids of numeric/date/uuid properties (natural value, v = 0)
          VLens,       \* value lengths for text properties
          MaxItems, Forms, Quotes, WSs, Contents,
          Mode,        \* "design" | "edge" | "hdrcut"
          OutFile

Buf == 1538
HdrWin == 128                       \* look-ahead of the tag-header reader (grows by 128 while it holds no '<')
WSLen(w) == CASE w = "nlsp" -> 4 [] w = "sp3" -> 3 [] w = "run126" -> 126 [] w = "run127" -> 127 [] w = "run300" -> 300 [] OTHER -> 1
\* the deviation: the '<' of an element is found in the last 8 bytes of a window and its name is cut off
HdrCut(it) == Mode = "hdrcut" /\ it.form = "elem" /\ (WSLen(it.ws) % HdrWin) >= HdrWin - 8
AttrWins == <<256, 768, 1280>>      \* s := 256; s += 512 while Peek(s) succeeds (1792 > Buf: ErrBufferFull)
ValWins  == <<512, 1024, 1536>>     \* s := 512; s += 512

VARIABLES items, k, wi, out, err, pc, grows
vars == <<items, k, wi, out, err, pc, grows>>

Item(p, f, q, v, w, c) == [p |-> p, form |-> f, q |-> q, v |-> v, ws |-> w, c |-> c]
ItemsOver(P) == {Item(p, f, q, v, w, c) : p \in P, f \in Forms, q \in Quotes, v \in VLens, w \in WSs, c \in Contents}
Candidates == {it \in ItemsOver(TextProps) : (it.form = "elem" => it.q = "dq") /\ (it.c = "oq" => it.v >= 3)}
          \cup {Item(p, f, "dq", 0, w, "plain") : p \in FixedProps, f \in Forms, w \in WSs}
\* attributes first, then elements; a property occurs once
WellOrdered(s) == /\ \A a, b \in 1..Len(s) : a < b => ~(s[a].form = "elem" /\ s[b].form = "attr")
                  /\ \A a, b \in 1..Len(s) : a # b => s[a].p # s[b].p

Init == /\ items \in {s \in UNION {[1..n -> Candidates] : n \in 1..MaxItems} : WellOrdered(s)}
        /\ k = 1 /\ wi = 1 /\ out = <<>> /\ err = 0 /\ pc = "tok" /\ grows = 0

\* natural values of fixed properties are short (< 64 bytes): they fit the first window
VL(it) == IF it.v = 0 THEN 24 ELSE it.v
NeedAttr(it) == IF Mode = "edge" THEN 2 + VL(it) + 1 ELSE 2 + VL(it) + 1 + 2
NeedVal(it)  == 1 + VL(it) + 1
\* the deviation: the quote is found in window w, but the look-ahead byte lies outside of it
EdgeFail(it, w) == Mode = "edge" /\ 2 + VL(it) + 1 = w

ReadAttrValue == /\ pc = "tok" /\ k <= Len(items) /\ items[k].form = "attr"
                 /\ NeedAttr(items[k]) <= AttrWins[wi]
                 /\ IF EdgeFail(items[k], AttrWins[wi])
                      THEN err' = 1 /\ pc' = "done" /\ UNCHANGED <<out, k, wi>>
                      ELSE out' = Append(out, [p |-> items[k].p, v |-> items[k].v]) /\ k' = k + 1 /\ wi' = 1 /\ UNCHANGED <<err, pc>>
                 /\ UNCHANGED <<items, grows>>
GrowAttr == /\ pc = "tok" /\ k <= Len(items) /\ items[k].form = "attr"
            /\ NeedAttr(items[k]) > AttrWins[wi] /\ wi < Len(AttrWins)
            /\ wi' = wi + 1 /\ grows' = grows + 1 /\ UNCHANGED <<items, k, out, err, pc>>
ReadTagValue == /\ pc = "tok" /\ k <= Len(items) /\ items[k].form = "elem"
                /\ NeedVal(items[k]) <= ValWins[wi]
                /\ IF HdrCut(items[k])
                     THEN err' = 1 /\ pc' = "done" /\ UNCHANGED <<out, k, wi>>
                     ELSE out' = Append(out, [p |-> items[k].p, v |-> items[k].v]) /\ k' = k + 1 /\ wi' = 1 /\ UNCHANGED <<err, pc>>
                /\ UNCHANGED <<items, grows>>
GrowValue == /\ pc = "tok" /\ k <= Len(items) /\ items[k].form = "elem"
             /\ NeedVal(items[k]) > ValWins[wi] /\ wi < Len(ValWins)
             /\ wi' = wi + 1 /\ grows' = grows + 1 /\ UNCHANGED <<items, k, out, err, pc>>
\* the next window would exceed the buffer: bufio.ErrBufferFull ends the parse with an error
BufferFull == /\ pc = "tok" /\ k <= Len(items)
              /\ \/ (items[k].form = "attr" /\ NeedAttr(items[k]) > AttrWins[wi] /\ wi = Len(AttrWins))
                 \/ (items[k].form = "elem" /\ NeedVal(items[k]) > ValWins[wi] /\ wi = Len(ValWins))
              /\ err' = 1 /\ pc' = "done" /\ UNCHANGED <<items, k, wi, out, grows>>
Finish == /\ pc = "tok" /\ k > Len(items) /\ pc' = "done" /\ UNCHANGED <<items, k, wi, out, err, grows>>
Stutter == pc = "done" /\ UNCHANGED vars
Next == ReadAttrValue \/ GrowAttr \/ ReadTagValue \/ GrowValue \/ BufferFull \/ Finish \/ Stutter
Spec == Init /\ [][Next]_vars /\ WF_vars(ReadAttrValue \/ GrowAttr \/ ReadTagValue \/ GrowValue \/ BufferFull \/ Finish)

TypeOK == k \in 1..(Len(items) + 1) /\ wi \in 1..3 /\ err \in {0, 1} /\ pc \in {"tok", "done"}
\* C13: every property whose value is at most 1024 bytes long is reported with exactly its value (in document order) ...
Guaranteed(it) == VL(it) <= 1024
Exact == pc = "done" =>
           /\ \A j \in 1..Len(out) : out[j].p = items[j].p /\ out[j].v = items[j].v
           /\ (err = 0 => Len(out) = Len(items))
           /\ (err = 1 => Len(out) < Len(items) /\ ~Guaranteed(items[Len(out) + 1]))     \* ... an error only for a token beyond the guarantee
\* C13: attribute and element form are equivalent for guaranteed tokens
FormEq == pc = "done" /\ err = 0 => \A j \in 1..Len(items) : out[j].v = items[j].v
\* C02: a window is never retried at the same size
GrowBound == grows <= 2 * Len(items)
Terminates == <>(pc = "done")

Emit == (pc = "done" /\ OutFile # "") =>
          CSVWrite("%1$s", <<ToJson([items |-> items, out |-> out, err |-> err])>>, OutFile)
=============================================================================
