-------------------------------- MODULE Chunk --------------------------------
(* Reader environment with short reads (property C08).                        *)
(*                                                                            *)
(* A decoder on an UNBUFFERED reader issues a script of requests "give me n   *)
(* bytes" (exif2.fastRead / discard on a raw reader, png.ScanPngHeader,        *)
(* preview.RenderPreview through isobmff box.Read, imagetype.Scan).  The       *)
(* environment (io.Reader contract) may deliver ANY 1..n bytes per Read call,  *)
(* may return the last bytes together with EOF, and returns 0,EOF at the end.  *)
(* The intended design of every such site is ReadFull: repeat Read until the   *)
(* request is satisfied or the stream ends.  The deviation the code is known   *)
(* to contain in places -- a single Read whose count is trusted -- is the      *)
(* named action SingleRead; with Mode = "single" TLC shows ChunkFree fails,    *)
(* with Mode = "full" it holds for every delivery choice.                      *)
(*                                                                            *)
(* The delivery choices per Read call are the classes                         *)
(*    F full,  S short by one,  H half,  O one byte                            *)
(* The runs of the design are emitted as delivery PATTERNS (one class per Read *)
(* call); the harness replays every pattern at every call position of the     *)
(* real read-call script of each entry point and compares with a full reader. *)
EXTENDS Integers, Sequences, TLC, Json, CSV

CONSTANTS Script,      \* sequence of request sizes, e.g. <<8, 8, 2, 12, 4>>
          StreamLen,   \* bytes in the stream (may be shorter than the script needs: truncation)
          MaxCalls,    \* bound on Read calls (pattern length)
          Mode,        \* "full" (ReadFull design) | "single" (one Read, count trusted)
          OutFile

VARIABLES j,        \* index of the current request
          got,      \* bytes obtained so far for request j
          pos,      \* stream position (bytes delivered so far)
          view,     \* per completed request: <<first, last+1>> stream range the decoder believes it holds
          pat,      \* delivery class of each Read call so far
          eofdata,  \* 1 iff the environment returns the final bytes together with EOF
          pc

vars == <<j, got, pos, view, pat, eofdata, pc>>

Need(i)  == Script[i]
Start(i) == IF i = 1 THEN 0 ELSE LET RECURSIVE S(_) S(k) == IF k = 0 THEN 0 ELSE S(k-1) + Script[k] IN S(i-1)
Avail    == StreamLen - pos

Init == j = 1 /\ got = 0 /\ pos = 0 /\ view = <<>> /\ pat = <<>> /\ eofdata \in {0, 1} /\ pc = "req"

Classes == {"F", "S", "H", "O"}
Amount(c, n) == CASE c = "F" -> n [] c = "S" -> n - 1 [] c = "H" -> n \div 2 [] OTHER -> 1

\* one Read call of the environment for a request of n bytes: any legal class, never more than is left
Deliver(n, c) == LET want == Amount(c, n)
                     k == IF want < 1 THEN 1 ELSE want
                 IN  IF k > Avail THEN Avail ELSE k

\* ReadFull: keep calling Read until the request is complete or the stream ends
ReadStep == /\ pc = "req" /\ j <= Len(Script) /\ Len(pat) < MaxCalls
            /\ \E c \in Classes :
                 LET n == Need(j) - got
                     k == Deliver(n, c)
                 IN /\ (c # "F" => Amount(c, n) >= 1 /\ Amount(c, n) < n)        \* distinct classes only where they differ
                    /\ pat' = Append(pat, c)
                    /\ pos' = pos + k
                    /\ IF Mode = "single"
                         THEN \* the count of ONE Read is trusted: the decoder continues as if it held n bytes
                              /\ view' = Append(view, <<pos - got, pos - got + Need(j)>>)
                              /\ got' = 0 /\ j' = j + 1
                              /\ pc' = IF k = 0 THEN "eof" ELSE "req"
                         ELSE IF got + k = Need(j)
                                THEN /\ view' = Append(view, <<pos - got, pos + k>>) /\ got' = 0 /\ j' = j + 1 /\ pc' = "req"
                                ELSE IF k = 0 THEN /\ pc' = "eof" /\ UNCHANGED <<view, got, j>>    \* stream ended inside the request
                                              ELSE /\ got' = got + k /\ UNCHANGED <<view, j>> /\ pc' = "req"
            /\ UNCHANGED eofdata
Finish == /\ pc = "req" /\ j > Len(Script) /\ pc' = "done" /\ UNCHANGED <<j, got, pos, view, pat, eofdata>>
Cap    == /\ pc = "req" /\ j <= Len(Script) /\ Len(pat) >= MaxCalls /\ pc' = "capped" /\ UNCHANGED <<j, got, pos, view, pat, eofdata>>
Stutter == pc \in {"done", "eof", "capped"} /\ UNCHANGED vars
Next == ReadStep \/ Finish \/ Cap \/ Stutter
Spec == Init /\ [][Next]_vars /\ WF_vars(ReadStep \/ Finish \/ Cap)

TypeOK == /\ j \in 1..(Len(Script) + 1) /\ got >= 0 /\ pos \in 0..StreamLen /\ pc \in {"req", "done", "eof", "capped"}
\* C08: what the decoder holds for request i is exactly stream[Start(i), Start(i)+Need(i)) whatever the deliveries were
ChunkFree == \A i \in 1..Len(view) : view[i] = <<Start(i), Start(i) + Need(i)>>
\* ... and it never believes to hold bytes that were not delivered
NoPhantom == \A i \in 1..Len(view) : view[i][2] <= pos
\* every call makes progress or ends the run
Progress  == [][pc = "req" /\ pc' = "req" /\ pat' # pat => (pos' > pos)]_vars
Terminates == <>(pc \in {"done", "eof", "capped"})

Emit == (pc \in {"done", "eof", "capped"} /\ OutFile # "") =>
          CSVWrite("%1$s", <<ToJson([pat |-> pat, eofdata |-> eofdata, res |-> pc])>>, OutFile)
=============================================================================
