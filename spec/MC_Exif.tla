------------------------------- MODULE MC_Exif -------------------------------
EXTENDS Exif

E(k, d, c) == [key |-> k, ifd |-> d, cls |-> c]

\* one representative per encoding class and directory
UniverseFull == {
  E(1, "IFD0", "embShort"), E(2, "IFD0", "embLong"), E(3, "IFD0", "embAscii"), E(4, "IFD0", "ascii9"), E(5, "IFD0", "ascii33"),
  E(6, "IFD0", "date"), E(7, "IFD0", "fOol"), E(8, "IFD0", "fEmb"), E(9, "IFD0", "inv"), E(10, "IFD0", "embShort2"), E(11, "IFD0", "embLongAlt"), E(12, "IFD0", "long2"),
  E(20, "Exif", "embShort"), E(21, "Exif", "rat"), E(22, "Exif", "srat"), E(23, "Exif", "rat4"), E(24, "Exif", "date"),
  E(25, "Exif", "zone"), E(26, "Exif", "subsec"), E(27, "Exif", "ascii9"), E(28, "Exif", "ascii5"), E(29, "Exif", "fOol"),
  E(30, "Exif", "embAscii"), E(31, "Exif", "subsec5"), E(32, "Exif", "embLong"), E(33, "Exif", "embShort2"), E(34, "Exif", "embLongAlt"),
  E(40, "GPS", "embAscii"), E(41, "GPS", "embByte"), E(42, "GPS", "rat3"), E(43, "GPS", "rat"), E(44, "GPS", "date11") }

\* the three parts of a composite timestamp, in every encoding class (embedded / out-of-line sub-seconds)
UniverseTime == { E(6, "IFD0", "date"), E(24, "Exif", "date"), E(25, "Exif", "zone"), E(26, "Exif", "subsec"),
                  E(30, "Exif", "embAscii"), E(31, "Exif", "subsec5"), E(42, "GPS", "rat3"), E(44, "GPS", "date11") }

UniverseBulk == { E(4, "IFD0", "ascii9"), E(21, "Exif", "rat"), E(42, "GPS", "rat3"), E(1, "IFD0", "embShort") }
=============================================================================
