------------------------------ MODULE MC_Fault ------------------------------
EXTENDS Fault
\* the field roles of a structured file, once each (the concretiser maps a role to EVERY field of that kind in a concrete file)
ShapeAll == <<"magic", "size", "count", "type", "ucount", "offset", "data">>
=============================================================================
