------------------------------- MODULE Decode -------------------------------
(* Top-level composition: the public entry points of package imagemeta         *)
(* (Decode, DecodeTiff/CR2/Heif, DecodeJPEG, DecodePng, DecodeCR3, PreviewCR3) *)
(* as compositions of the component readers specified elsewhere:               *)
(*   sniff (ImageType)  ->  route  ->  jpeg scanner (Jpeg) | TIFF header       *)
(*   search (TiffScan) | box reader (Bmff) | PNG chunk scan  ->  IFD reader    *)
(*   (Exif) inside the window the component hands it.                          *)
(* Not one of the listed properties; it grows the specification to the system  *)
(* level so that the component specifications are tied to what a user calls.  *)
(*                                                                             *)
(* The observable history h is the sequence of COMPONENT-LEVEL events, the     *)
(* projection of the hook events of the real code:                             *)
(*   "J(" first scan step of jpeg.ScanJPEG   "J)" its return                   *)
(*   "Jx>" / "Jx<"  Exif callback window of the scanner                        *)
(*   "Tf" tiff.ScanTiffHeader found a signature   "Tn" it found none           *)
(*   "B)" return of ReadFTYP / ReadMetadata  "Bx>k" / "Bx<k" callback window   *)
(*        (k = 1 Exif, 3 preview; the XMP window k = 2 needs an XMP callback)  *)
(*   "E1(" "E2(" "E3(" the IFD reader starts (DecodeTiff / DecodeJPEGIfd /     *)
(*        DecodeIfd)   "E)" it returns                                         *)
(* One action per call the entry point makes.  Inputs are KINDS of files with  *)
(* known structure (MC_Decode): sniffed type, TIFF signature present, number   *)
(* of Exif segments / CMT boxes, preview present.                              *)
EXTENDS Integers, Sequences, FiniteSets, TLC, Json, CSV

CONSTANTS Entries, Kinds, OutFile,
          TypeOf(_),     \* kind -> sniffed type name ("Unknown": no signature, "Short": fewer than 24 bytes)
          HasSig(_),     \* kind -> a TIFF signature lies where tiff.ScanTiffHeader looks for it
          ExifSegs(_),   \* kind -> number of APP1 Exif segments in front of the image data (JPEG kinds)
          Cmts(_),       \* kind -> number of CMT boxes in moov (CR3 kinds)
          HasPrev(_),    \* kind -> third top-level box is the Canon preview uuid
          PngExif(_)     \* kind -> PNG with an eXIf chunk

VARIABLES entry, kind, pc, h, err, rtype, left
vars == <<entry, kind, pc, h, err, rtype, left>>

TiffTypes == {"CR2", "TIFF", "PanaRAW", "DNG"}
BmffTypes == {"CR3", "AVIF"}
Sniffs(e) == e \notin {"DecodePng", "DecodeCR3", "PreviewCR3"}        \* these entry points do not sniff
MetaCalls(e) == CASE e = "Decode" -> 1 [] e = "DecodeCR3" -> 2 [] e = "PreviewCR3" -> 3 [] OTHER -> 0
IsBmffKind(k) == TypeOf(k) \in (BmffTypes \cup {"HEIF"})

\* the Canon entry points on HEIF-family files are outside the model (item paths, see DESIGN.md 9.6)
InModel(e, k) == ~(e \in {"DecodeCR3", "PreviewCR3"} /\ TypeOf(k) \in {"AVIF", "HEIF"})
Init == /\ entry \in Entries /\ kind \in Kinds /\ InModel(entry, kind)
        /\ pc = "call" /\ h = <<>> /\ err = "none" /\ rtype = "Unknown" /\ left = 0

Ev(e) == h' = Append(h, e)
Fail(c) == err' = c /\ pc' = "done"

\* imagetype.ScanBuf on the pooled reader
Sniff == /\ pc = "call" /\ Sniffs(entry)
         /\ IF TypeOf(kind) = "Short" THEN Fail("other") /\ UNCHANGED <<h, rtype, left>>
            ELSE IF TypeOf(kind) = "Unknown" THEN Fail("notfound") /\ UNCHANGED <<h, rtype, left>>
            ELSE /\ pc' = "route" /\ UNCHANGED <<h, err, rtype, left>>
         /\ UNCHANGED <<entry, kind>>
NoSniff == /\ pc = "call" /\ ~Sniffs(entry)
           /\ pc' = CASE entry = "DecodePng" -> "png" [] OTHER -> "ftyp"
           /\ left' = MetaCalls(entry) /\ UNCHANGED <<entry, kind, h, err, rtype>>

\* the switch of each entry point
Route == /\ pc = "route"
         /\ LET t == TypeOf(kind) IN
            CASE entry = "Decode" ->
                   IF t = "JPEG" THEN pc' = "jpeg" /\ UNCHANGED <<err, left>>
                   ELSE IF t \in TiffTypes \cup {"HEIF"} THEN pc' = "tiff" /\ UNCHANGED <<err, left>>
                   ELSE IF t \in BmffTypes THEN pc' = "ftyp" /\ left' = 1 /\ UNCHANGED err
                   ELSE Fail("unsupported") /\ UNCHANGED left
              [] entry \in {"DecodeTiff", "DecodeCR2", "DecodeHeif"} -> pc' = "tiff" /\ UNCHANGED <<err, left>>      \* no type check: any sniffable file is searched
              [] entry = "DecodeJPEG" ->
                   IF t = "JPEG" THEN pc' = "jpeg" /\ UNCHANGED <<err, left>> ELSE Fail("unsupported") /\ UNCHANGED left
         /\ UNCHANGED <<entry, kind, h, rtype>>

\* jpeg.ScanJPEG with the IFD reader as Exif callback and no XMP callback
JpegStart == /\ pc = "jpeg" /\ Ev("J(") /\ left' = ExifSegs(kind) /\ pc' = "jscan" /\ UNCHANGED <<entry, kind, err, rtype>>
JpegExif  == /\ pc = "jscan" /\ left > 0
             /\ h' = h \o <<"Jx>", "E2(", "E)", "Jx<">> /\ left' = left - 1
             /\ UNCHANGED <<entry, kind, pc, err, rtype>>
\* As coded: a JPEG file without Exif is no error (an empty record of type JPEG); the IFD reader keeps its stream
\* position from one window to the next, so a SECOND Exif segment is refused and fails the whole call (observation
\* outside the listed properties, recorded in DESIGN.md 9.7).
JpegRet   == /\ pc = "jscan" /\ left = 0 /\ Ev("J)")
             /\ IF ExifSegs(kind) > 1 THEN Fail("other") /\ UNCHANGED rtype
                ELSE pc' = "done" /\ rtype' = "JPEG" /\ UNCHANGED err
             /\ UNCHANGED <<entry, kind, left>>

\* tiff.ScanTiffHeader, then ifdReader.DecodeTiff on the same reader
TiffScan == /\ pc = "tiff" /\ pc' = "tsearch" /\ UNCHANGED <<entry, kind, h, err, rtype, left>>
TiffFound == /\ pc = "tsearch" /\ HasSig(kind)
             /\ h' = h \o <<"Tf", "E1(", "E)">> /\ pc' = "done" /\ rtype' = TypeOf(kind)
             /\ UNCHANGED <<entry, kind, err, left>>
TiffNone  == /\ pc = "tsearch" /\ ~HasSig(kind) /\ Ev("Tn") /\ Fail("noexif") /\ UNCHANGED <<entry, kind, rtype, left>>

\* isobmff: ReadFTYP, then MetaCalls(entry) x ReadMetadata
Ftyp == /\ pc = "ftyp" /\ Ev("B)")
        /\ IF IsBmffKind(kind) THEN pc' = "meta" /\ UNCHANGED err ELSE Fail("other")
        /\ UNCHANGED <<entry, kind, rtype, left>>
\* call number n (1 = moov, 2 = xpacket uuid, 3 = preview uuid) on a Canon CR3 file
CallNo == MetaCalls(entry) - left + 1
Windows(n) == IF TypeOf(kind) # "CR3" THEN <<>>
              ELSE IF n = 1 /\ entry # "PreviewCR3"
                   THEN [j \in 1..(4 * Cmts(kind)) |-> <<"Bx>1", "E3(", "E)", "Bx<1">>[((j - 1) % 4) + 1]]
              ELSE IF n = 3 /\ entry = "PreviewCR3" /\ HasPrev(kind) THEN <<"Bx>3", "Bx<3">>
              ELSE <<>>
Meta == /\ pc = "meta" /\ left > 0
        /\ h' = h \o Windows(CallNo) \o <<"B)">> /\ left' = left - 1
        /\ UNCHANGED <<entry, kind, pc, err, rtype>>
MetaDone == /\ pc = "meta" /\ left = 0 /\ pc' = "done"
            /\ rtype' = IF entry = "PreviewCR3" THEN rtype ELSE TypeOf(kind)
            /\ UNCHANGED <<entry, kind, h, err, left>>

\* png.ScanPngHeader has no hooks: only the IFD reader shows
Png == /\ pc = "png"
       /\ IF TypeOf(kind) # "PNG" \/ ~PngExif(kind) THEN Fail("noexif") /\ UNCHANGED <<h, rtype>>      \* not a PNG, or no eXIf chunk: "no Exif"
          ELSE h' = h \o <<"E1(", "E)">> /\ pc' = "done" /\ rtype' = "PNG" /\ UNCHANGED err
       /\ UNCHANGED <<entry, kind, left>>

Stutter == pc = "done" /\ UNCHANGED vars
Next == Sniff \/ NoSniff \/ Route \/ JpegStart \/ JpegExif \/ JpegRet \/ TiffScan \/ TiffFound \/ TiffNone
        \/ Ftyp \/ Meta \/ MetaDone \/ Png \/ Stutter
Spec == Init /\ [][Next]_vars /\ WF_vars(Next)

----------------------------------------------------------------------------
Tokens == {"J(", "J)", "Jx>", "Jx<", "Tf", "Tn", "B)", "Bx>1", "Bx<1", "Bx>3", "Bx<3", "E1(", "E2(", "E3(", "E)"}
TypeOK == /\ pc \in {"call", "route", "jpeg", "jscan", "tiff", "tsearch", "ftyp", "meta", "png", "done"}
          /\ \A i \in 1..Len(h) : h[i] \in Tokens
          /\ err \in {"none", "notfound", "unsupported", "noexif", "other"} /\ left \in 0..8
Fam(tok) == SubSeq(tok, 1, 1)
\* the IFD reader runs only inside the window a component hands it, in the variant that belongs to that component
Opener(tok) == CASE tok = "E1(" -> {"Tf", "START"} [] tok = "E2(" -> {"Jx>"} [] tok = "E3(" -> {"Bx>1"} [] OTHER -> {}
ExifNested == \A i \in 1..Len(h) : h[i] \in {"E1(", "E2(", "E3("} =>
                 (IF i = 1 THEN "START" ELSE h[i-1]) \in Opener(h[i])
\* ... and returns before the window closes: every start is directly followed by its return
ExifBalanced == \A i \in 1..Len(h) : h[i] \in {"E1(", "E2(", "E3("} => (i < Len(h) => h[i+1] = "E)")
\* exactly one component family serves a call (the IFD reader aside)
OneFamily == Cardinality({Fam(h[i]) : i \in 1..Len(h)} \ {"E"}) <= 1
\* a call that fails before routing shows no component activity; unsupported types are refused, not searched
QuietRefusal == (pc = "done" /\ err \in {"notfound", "unsupported"}) => h = <<>>
\* the reported image type is the sniffed one
TypeReported == (pc = "done" /\ err = "none" /\ entry # "PreviewCR3") => rtype = TypeOf(kind)
Returns == <>(pc = "done")

Emit == (pc = "done" /\ OutFile # "") =>
          CSVWrite("%1$s", <<ToJson([entry |-> entry, kind |-> kind, h |-> h, err |-> err, rtype |-> rtype])>>, OutFile)
=============================================================================
