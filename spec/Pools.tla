-------------------------------- MODULE Pools --------------------------------
(* Shared state of the library between calls (properties C04 no cross-call     *)
(* leakage, C05 concurrent calls).                                             *)
(*                                                                             *)
(* sync.Pool objects (exif2 buffer: pending-tag array + scratch bytes; pooled   *)
(* bufio readers; pixel buffers) are modelled as arrays of CELLS labelled with  *)
(* the call that last wrote them (0 = never written).  sync.Pool's contract is  *)
(* "Get returns ANY pooled object or a new one", so PoolGet is nondeterministic *)
(* and the model quantifies over goroutine placement and GC at once.            *)
(* A call of input class n (n = cells it needs: pending tags / bytes / pixels)  *)
(* is the program  Get; Write cells 0..n-1; TzLookup; Read; Put; Return.        *)
(* Design: Read touches only cells 0..n-1 (what this call wrote); the object is *)
(* held by one call from Get to Put and not touched afterwards; the time-zone   *)
(* cache is read under the read lock and written under the write lock only.     *)
(* Deviations (Mode): "staleIdx" reads cell n (nextTag/advanceBuffer on the     *)
(* pinned tree; a wrong-sized image hashed from an unwritten pixel buffer),     *)
(* "earlyPut" puts the object before the last read (or into a second pool while *)
(* its owner still holds it), "rlockWrite" inserts into the cache holding only  *)
(* the read lock.                                                               *)
(* Procs = 1 with several calls gives every HISTORY; Procs >= 2 gives every     *)
(* INTERLEAVING at the granularity of these steps.                              *)
EXTENDS Integers, Sequences, FiniteSets, TLC, Json, CSV

CONSTANTS Procs, CallsPer, Classes, Cells, MaxObjs, Zones, Mode, OutFile

VARIABLES pool,      \* set of object ids currently in the pool
          cell,      \* object id -> [0..Cells-1 -> label]
          nobj,      \* objects created so far
          pc, k, cls, obj, zone,   \* per process: control, call number, input class, held object, zone of this call
          taint,     \* set of <<call, foreign label>>: reads of cells this call did not write
          held,      \* object id -> set of processes using it
          tzc,       \* cached zones
          rl, wl,    \* read-lock holders, write-lock holder (0 = none)
          badw,      \* a cache write happened without exclusive access
          hist       \* per process: sequence of [cls, zone] (the emitted history / schedule prefix)

vars == <<pool, cell, nobj, pc, k, cls, obj, zone, taint, held, tzc, rl, wl, badw, hist>>
P == 1..Procs
CallId(p) == p * 100 + k[p]

Init == /\ pool = {} /\ cell = <<>> /\ nobj = 0
        /\ pc = [p \in P |-> "get"] /\ k = [p \in P |-> 1]
        /\ cls \in [P -> Classes] /\ zone \in [P -> Zones]
        /\ obj = [p \in P |-> 0] /\ taint = {} /\ held = <<>> /\ tzc = {} /\ rl = {} /\ wl = 0 /\ badw = FALSE
        /\ hist = [p \in P |-> <<>>]

\* sync.Pool.Get: any pooled object, or a new one
Get(p) == /\ pc[p] = "get"
          /\ \/ \E o \in pool : /\ pool' = pool \ {o} /\ obj' = [obj EXCEPT ![p] = o] /\ held' = [held EXCEPT ![o] = @ \cup {p}]
                                /\ UNCHANGED <<cell, nobj>>
             \/ /\ nobj < MaxObjs /\ nobj' = nobj + 1 /\ obj' = [obj EXCEPT ![p] = nobj + 1]
                /\ cell' = Append(cell, [c \in 0..(Cells-1) |-> 0]) /\ held' = Append(held, {p}) /\ UNCHANGED pool
          /\ pc' = [pc EXCEPT ![p] = "write"]
          /\ hist' = [hist EXCEPT ![p] = Append(@, [cls |-> cls[p], zone |-> zone[p]])]
          /\ UNCHANGED <<k, cls, zone, taint, tzc, rl, wl, badw>>
\* buffer.clear + decoding: the call fills cells 0..n-1
Write(p) == /\ pc[p] = "write"
            /\ cell' = [cell EXCEPT ![obj[p]] = [c \in 0..(Cells-1) |-> IF c < cls[p] THEN CallId(p) ELSE @[c]]]
            /\ pc' = [pc EXCEPT ![p] = IF Mode = "earlyPut" THEN "put" ELSE "tzr"]
            /\ UNCHANGED <<pool, nobj, k, cls, obj, zone, taint, held, tzc, rl, wl, badw, hist>>
\* getLocation: RLock, lookup
TzR(p) == /\ pc[p] = "tzr" /\ wl = 0
          /\ rl' = rl \cup {p}
          /\ pc' = [pc EXCEPT ![p] = IF zone[p] \in tzc THEN "tzhit" ELSE IF Mode = "rlockWrite" THEN "tzins" ELSE "tzmiss"]
          /\ UNCHANGED <<pool, cell, nobj, k, cls, obj, zone, taint, held, tzc, wl, badw, hist>>
TzHit(p) == /\ pc[p] = "tzhit" /\ rl' = rl \ {p} /\ pc' = [pc EXCEPT ![p] = "read"]
            /\ UNCHANGED <<pool, cell, nobj, k, cls, obj, zone, taint, held, tzc, wl, badw, hist>>
\* miss: RUnlock, then Lock
TzMiss(p) == /\ pc[p] = "tzmiss" /\ rl' = rl \ {p} /\ pc' = [pc EXCEPT ![p] = "tzlock"]
             /\ UNCHANGED <<pool, cell, nobj, k, cls, obj, zone, taint, held, tzc, wl, badw, hist>>
TzLock(p) == /\ pc[p] = "tzlock" /\ wl = 0 /\ rl = {} /\ wl' = p /\ pc' = [pc EXCEPT ![p] = "tzins"]
             /\ UNCHANGED <<pool, cell, nobj, k, cls, obj, zone, taint, held, tzc, rl, badw, hist>>
\* insert (a second inserter of the same zone stores an equal entry: the cache stays a function of the offset)
TzIns(p) == /\ pc[p] = "tzins"
            /\ tzc' = tzc \cup {zone[p]}
            /\ badw' = (badw \/ wl # p \/ rl \ {p} # {})
            /\ wl' = (IF wl = p THEN 0 ELSE wl)
            /\ rl' = rl \ {p}
            /\ pc' = [pc EXCEPT ![p] = "read"]
            /\ UNCHANGED <<pool, cell, nobj, k, cls, obj, zone, taint, held, hist>>
\* the call reads back what it needs: design = its own cells only
ReadSet(p) == IF Mode = "staleIdx" /\ cls[p] < Cells THEN 0..cls[p] ELSE 0..(cls[p] - 1)
Read(p) == /\ pc[p] = "read"
           /\ taint' = taint \cup {<<CallId(p), cell[obj[p]][c]>> : c \in {x \in ReadSet(p) : cell[obj[p]][x] # CallId(p)}}
           /\ pc' = [pc EXCEPT ![p] = IF Mode = "earlyPut" THEN "ret" ELSE "put"]
           /\ UNCHANGED <<pool, cell, nobj, k, cls, obj, zone, held, tzc, rl, wl, badw, hist>>
Put(p) == /\ pc[p] = "put"
          /\ pool' = pool \cup {obj[p]}
          /\ held' = IF Mode = "earlyPut" THEN held ELSE [held EXCEPT ![obj[p]] = @ \ {p}]
          /\ pc' = [pc EXCEPT ![p] = IF Mode = "earlyPut" THEN "tzr" ELSE "ret"]
          /\ UNCHANGED <<cell, nobj, k, cls, obj, zone, taint, tzc, rl, wl, badw, hist>>
Ret(p) == /\ pc[p] = "ret"
          /\ held' = [held EXCEPT ![obj[p]] = @ \ {p}]
          /\ IF k[p] < CallsPer
               THEN /\ k' = [k EXCEPT ![p] = @ + 1] /\ pc' = [pc EXCEPT ![p] = "get"]
                    /\ \E c \in Classes, z \in Zones : cls' = [cls EXCEPT ![p] = c] /\ zone' = [zone EXCEPT ![p] = z]
               ELSE pc' = [pc EXCEPT ![p] = "done"] /\ UNCHANGED <<k, cls, zone>>
          /\ obj' = [obj EXCEPT ![p] = 0]
          /\ UNCHANGED <<pool, cell, nobj, taint, tzc, rl, wl, badw, hist>>
Stutter == (\A p \in P : pc[p] = "done") /\ UNCHANGED vars
Step(p) == Get(p) \/ Write(p) \/ TzR(p) \/ TzHit(p) \/ TzMiss(p) \/ TzLock(p) \/ TzIns(p) \/ Read(p) \/ Put(p) \/ Ret(p)
Next == (\E p \in P : Step(p)) \/ Stutter
Spec == Init /\ [][Next]_vars /\ \A p \in P : WF_vars(Step(p))

TypeOK == /\ nobj \in 0..MaxObjs /\ \A p \in P : pc[p] \in {"get", "write", "tzr", "tzhit", "tzmiss", "tzlock", "tzins", "read", "put", "ret", "done"}
\* C04: a result depends only on the call's own input: nothing foreign (and nothing never-written) is read
Pure == taint = {}
\* C05: an object is used by one call at a time, and never while it sits in the pool
Exclusive == \A o \in 1..nobj : Cardinality(held[o]) <= 1 /\ (o \in pool => held[o] = {})
\* C05: the cache is written only with exclusive access
WriterExclusive == ~badw
LockOK == (wl # 0 => rl = {})
\* C05: no deadlock, every call returns
Returns == <>(\A p \in P : pc[p] = "done")

Emit == ((\A p \in P : pc[p] = "done") /\ OutFile # "") => CSVWrite("%1$s", <<ToJson([hist |-> hist])>>, OutFile)
=============================================================================
