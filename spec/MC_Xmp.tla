------------------------------- MODULE MC_Xmp -------------------------------
EXTENDS Xmp
\* every value length across all look-ahead steps (a failure at exactly one length cannot hide)
VSweepQuick == 1..1030
VSweepFull  == 1..1600
=============================================================================
