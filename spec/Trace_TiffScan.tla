--------------------------- MODULE Trace_TiffScan ---------------------------
(* Trace acceptor for tiff.ScanTiffHeader: decides whether the hook events   *)
(* recorded from the real code are a behaviour of the TiffScan design.       *)
(* Many runs are concatenated; a "start" event (written by the harness)      *)
(* carries the stream of that run as symbols of the signature alphabet.      *)
(*   step  a = <<discarded-before, advance>>                                 *)
(*   found a = <<offset, order(1=LE,2=BE), firstIfdOffset>>                  *)
(*   noexif a = <<discarded>>                                                *)
EXTENDS TiffScanOps, TLC, Json

CONSTANTS TraceFile, Window

Trace == ndJsonDeserialize(TraceFile)

VARIABLES l, stream, pos, st
tvars == <<l, stream, pos, st>>

Ev(e) == l <= Len(Trace) /\ Trace[l].e = e /\ l' = l + 1

TInit == l = 1 /\ stream = <<>> /\ pos = 1 /\ st = "idle"

TStart == /\ Ev("start") /\ st \in {"idle", "done"}
          /\ stream' = Trace[l].stream /\ pos' = 1 /\ st' = "scan"

\* the design's own step must explain the logged step: same position, same advance
TStep == /\ Ev("step") /\ st = "scan"
         /\ CanPeek(stream, pos, Window) /\ ~SigAt(stream, pos)
         /\ Trace[l].a[1] = pos - 1
         /\ Trace[l].a[2] = Adv(stream, pos)
         /\ pos' = pos + Adv(stream, pos)
         /\ UNCHANGED <<stream, st>>

TFound == /\ Ev("found") /\ st = "scan"
          /\ CanPeek(stream, pos, Window) /\ SigAt(stream, pos)
          /\ Trace[l].a[1] = pos - 1
          /\ Trace[l].a[2] = (IF OrderAt(stream, pos) = "LE" THEN 1 ELSE 2)
          /\ st' = "done" /\ UNCHANGED <<stream, pos>>

TNoExif == /\ Ev("noexif") /\ st = "scan"
           /\ ~CanPeek(stream, pos, Window)
           /\ Trace[l].a[1] = pos - 1
           /\ st' = "done" /\ UNCHANGED <<stream, pos>>

TNext == TStart \/ TStep \/ TFound \/ TNoExif
TSpec == TInit /\ [][TNext]_tvars

\* invariants evaluated at every recorded step
TNoSkip == st \in {"scan", "done"} =>
             \A j \in 1..(pos-1) : ~(SigAt(stream, j) /\ CanPeek(stream, j, Window))

Accepted == TLCGet("stats").diameter - 1 = Len(Trace)
=============================================================================
