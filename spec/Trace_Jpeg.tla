------------------------------ MODULE Trace_Jpeg ------------------------------
(* Trace acceptor for jpeg.ScanJPEG (closed traces: the "start" event written  *)
(* by the harness carries the abstract input the bytes were built from).       *)
(* Events (package jpeg):                                                      *)
(*   scan     a = <<discarded, depth>>        each iteration of nextMarker     *)
(*   marker   a = <<marker, size, offset, depth>>                              *)
(*   exifcb>  a = <<order(1=LE,2=BE), firstIfd, tiffOffset, length>>           *)
(*   exifcb<  a = <<discarded, consumed>>                                      *)
(*   xmpcb>   a = <<limit, discarded>>                                         *)
(*   xmpcb<   a = <<left, discarded>>                                          *)
(*   ret      a = <<errclass>>   0 nil, 1 ErrNoJPEGMarker, 2 ErrEndOfImage, 3 other *)
(* Every accepting step is the design's own action (Jpeg!...) plus equality    *)
(* between what the code logged and what the design computes.                  *)
EXTENDS Jpeg

CONSTANTS TraceFile
Trace == ndJsonDeserialize(TraceFile)

VARIABLES l, lastscan
tvars == <<vars, l, lastscan>>

Ev(e) == l <= Len(Trace) /\ Trace[l].e = e /\ l' = l + 1
A(k)  == Trace[l].a[k]

TInit == /\ l = 1 /\ lastscan = -1
         /\ segs = <<DQT>> /\ xcons = <<"none">> /\ lead = "soi"
         /\ off = 0 /\ disc = 0 /\ depth = 0 /\ cur = 1 /\ pc = "done" /\ calls = <<>> /\ res = "-"

TStart == /\ Ev("start") /\ pc \in {"done"}
          /\ segs' = Trace[l].segs /\ xcons' = Trace[l].xcons /\ lead' = Trace[l].lead
          /\ off' = 0 /\ disc' = 0 /\ depth' = 0 /\ cur' = 1 /\ pc' = "start" /\ calls' = <<>> /\ res' = "-"
          /\ lastscan' = -1

\* first iteration: the scanner sees SOI (or not) -- design actions SOI / NoSOI / EOI are silent, so compose
TScanStart == /\ Ev("scan") /\ pc = "start" /\ A(1) = 0 /\ A(2) = 0
              /\ (SOI \/ NoSOI) /\ lastscan' = A(1)
TScanEOI   == /\ Ev("scan") /\ pc = "eoi" /\ A(1) = disc /\ A(2) = depth /\ UNCHANGED vars /\ lastscan' = A(1)
\* inside an image: every scan event stands exactly at the design's position
TScanIn    == /\ Ev("scan") /\ pc = "scan" /\ A(1) = disc /\ A(2) = depth /\ A(1) > lastscan
              /\ UNCHANGED vars /\ lastscan' = A(1)
\* the EOI marker right after SOI: latched at depth 1, then pos-- and discard(2)
TMarkerEOI == /\ Ev("marker") /\ pc = "eoi" /\ A(1) = 217 /\ A(3) = disc /\ EOI /\ UNCHANGED lastscan
\* outside an image the code may take several iterations where the design takes one: progress is what is checked
TScanOut   == /\ Ev("scan") /\ pc = "outside" /\ A(2) = 0
              /\ A(1) > lastscan /\ A(1) <= StreamLen
              /\ lastscan' = A(1) /\ off' = A(1) /\ disc' = A(1)
              /\ UNCHANGED <<segs, xcons, lead, depth, cur, pc, calls, res>>

TMarker == /\ Ev("marker") /\ pc = "scan" /\ depth > 0
           /\ off = Start(cur)                              \* Latch is enabled and does not get lost
           /\ A(1) = MarkerByte(segs[cur].mk) /\ A(2) = Size(cur) /\ A(3) = disc /\ A(3) = Start(cur) /\ A(4) = depth
           /\ DispatchStep /\ UNCHANGED lastscan

TExifEnter == /\ Ev("exifcb>") /\ pc = "exifcb"
              /\ LET c == calls[Len(calls)] IN
                   /\ A(1) = (IF c.bo = "LE" THEN 1 ELSE 2) /\ A(2) = c.ifd0 /\ A(3) = c.tiffOff /\ A(4) = c.len
                   /\ A(3) = TiffStart(c.i) /\ A(4) = segs[c.i].plen - 6
              /\ UNCHANGED <<vars, lastscan>>
TExifLeave == /\ Ev("exifcb<") /\ ExifCb /\ A(1) = disc' /\ A(2) = calls[Len(calls)].len /\ UNCHANGED lastscan

TXmpEnter == /\ Ev("xmpcb>") /\ pc = "xmpcb"
             /\ A(1) = calls[Len(calls)].len /\ A(2) = disc /\ A(2) = XmpStart(cur)
             /\ UNCHANGED <<vars, lastscan>>
TXmpLeave == /\ Ev("xmpcb<") /\ pc = "xmpcb"
             /\ LET lim == calls[Len(calls)].len IN
                  /\ A(1) = lim - XmpTake(cur, lim)           \* what the callback left
                  /\ A(2) = disc + XmpTake(cur, lim)          \* accounted for before the rest is discarded
             /\ XmpCb /\ UNCHANGED lastscan

TRet == /\ Ev("ret")
        /\ \/ (pc = "done" /\ res = "nil" /\ A(1) = 0)
           \/ (pc = "outside" /\ A(1) = 1 /\ lastscan >= StreamLen - 63)        \* Peek(64) failed: fewer than 64 bytes left
        /\ pc' = "done" /\ UNCHANGED <<segs, xcons, lead, off, disc, depth, cur, calls, res, lastscan>>

TNext == TStart \/ TScanStart \/ TScanEOI \/ TScanIn \/ TMarkerEOI \/ TScanOut \/ TMarker
         \/ TExifEnter \/ TExifLeave \/ TXmpEnter \/ TXmpLeave \/ TRet
TSpec == TInit /\ [][TNext]_tvars

Accepted == TLCGet("stats").diameter - 1 = Len(Trace)
=============================================================================
