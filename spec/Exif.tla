-------------------------------- MODULE Exif --------------------------------
(* The forward-only IFD reader of exif2 (readIfd / readIfdHeader / the pending- *)
(* tag work list in buffer.go): properties C03 (exact extraction from forward   *)
(* layouts), C06 (hand-off from the three Decode* initialisations), C04/C01     *)
(* (no stale index into the pending list), C02 (progress).                      *)
(*                                                                              *)
(* Abstract input, built by environment actions before the reader starts:       *)
(*   pick    - the entries of the logical record: records [key, ifd, cls]       *)
(*   dirs    - per directory the sequence of its entries (pointer entries to    *)
(*             the Exif/GPS directories are added when needed)                  *)
(*   lay/at  - the order of the blocks after IFD0 (value blocks, ExifIFD,       *)
(*             GPSIFD) and their byte offsets; Place() only produces FORWARD    *)
(*             layouts: a directory precedes its values and sub-directories     *)
(* Offsets and sizes are real byte arithmetic (2 + 12n + 4 per directory).      *)
(* Contents are abstract: an entry class determines kind and size only; the     *)
(* concretiser binds classes to real tags and values.                           *)
(*                                                                              *)
(* Reader actions have the grain of the code: Begin (DecodeTiff / DecodeJPEGIfd *)
(* / DecodeIfd), ReadHdr (readIfdHeader: count, entries, sorted insertion into  *)
(* the pending list, next-IFD pointer), LoopIfd (seekToTag, resetPosition),     *)
(* LoopVal (parseTag: discard + read), Advance, Finish.                         *)
EXTENDS Integers, Sequences, FiniteSets, TLC, Json, CSV, SequencesExt, FiniteSetsExt

CONSTANTS Universe,    \* candidate entries [key, ifd, cls]
          MinPick, MaxPick,
          Bulks,       \* numbers of extra foreign out-of-line entries appended to IFD0 (pending-list pressure)
          Pads,        \* padding inserted before every block
          Ifd0Ats,     \* offsets of IFD0
          Variants,    \* subset of {"tiff", "jpeg", "ifd"}
          MaxPending,  \* 84
          OutFile

VARIABLES pick, bulk, pad, ifd0at, variant,   \* input (environment)
          dirs,                               \* per directory the sequence of its entries (derived from pick/bulk, computed once)
          lay, at, free, phase,               \* layout under construction
          po, pend, cur, out, dropped, pc, hdr, reads        \* reader

vars == <<pick, bulk, pad, ifd0at, variant, dirs, lay, at, free, phase, po, pend, cur, out, dropped, pc, hdr, reads>>

--------------------------------------------------------------------------------
(* entry classes *)
EmbCls == {"embShort", "embShort2", "embLong", "embLongAlt", "embAscii", "embByte", "fEmb"}      \* embLongAlt: a SHORT field written as LONG (what is reported is not defined, but it must not depend on the byte order)      \* embShort2: two SHORTs fill the slot, the first is the value
PtrCls == {"exifptr", "gpsptr"}
Kind(cls) == IF cls \in EmbCls THEN "emb" ELSE IF cls \in PtrCls THEN "ptr" ELSE IF cls = "inv" THEN "inv" ELSE "ool"
SizeOf(cls) == CASE cls = "rat" -> 8 [] cls = "srat" -> 8 [] cls = "rat3" -> 24 [] cls = "rat4" -> 32
                 [] cls = "date" -> 20 [] cls = "date11" -> 11 [] cls = "zone" -> 7 [] cls = "subsec" -> 7 [] cls = "subsec5" -> 5
                 [] cls = "ascii9" -> 9 [] cls = "ascii33" -> 33 [] cls = "ascii5" -> 5 [] cls = "fOol" -> 8
                 [] cls = "long2" -> 8                  \* two LONGs (a two-strip image): out of line; which of them is reported is not defined, II and MM must agree
                 [] OTHER -> 4
Known(cls) == cls \notin {"fEmb", "fOol", "inv", "long2"} \cup PtrCls      \* classes that produce a reported field (a LONG array is not fetched: as coded, its slot is what is looked at)
Child(cls) == IF cls = "exifptr" THEN "Exif" ELSE "GPS"

BulkEntries == {[key |-> 1000 + i, ifd |-> "IFD0", cls |-> "fOol"] : i \in 1..bulk}
NeedExif == \E e \in pick : e.ifd = "Exif"
NeedGPS  == \E e \in pick : e.ifd = "GPS"
PtrEntries == (IF NeedExif THEN {[key |-> 900, ifd |-> "IFD0", cls |-> "exifptr"]} ELSE {})
         \cup (IF NeedGPS  THEN {[key |-> 901, ifd |-> "IFD0", cls |-> "gpsptr"]} ELSE {})
AllEntries == pick \cup PtrEntries \cup BulkEntries
DirCalc(d) == SetToSortSeq({e \in AllEntries : e.ifd = d}, LAMBDA a, b : a.key < b.key)
Dir(d) == dirs[d]
DirSize(d) == 2 + 12 * Len(Dir(d)) + 4

\* blocks other than IFD0: value blocks (by entry key) and the two sub-directories
ValBlocks == {[t |-> "val", key |-> e.key, ifd |-> e.ifd, size |-> SizeOf(e.cls)] : e \in {x \in AllEntries : Kind(x.cls) = "ool"}}
DirBlocks == (IF NeedExif THEN {[t |-> "dir", key |-> 900, ifd |-> "Exif", size |-> DirSize("Exif")]} ELSE {})
        \cup (IF NeedGPS  THEN {[t |-> "dir", key |-> 901, ifd |-> "GPS",  size |-> DirSize("GPS")]}  ELSE {})
Blocks == ValBlocks \cup DirBlocks
Placed == {lay[i] : i \in 1..Len(lay)}
DirPlaced(d) == d = "IFD0" \/ \E b \in Placed : b.t = "dir" /\ b.ifd = d

BulkRunOpen == (\E b \in Placed : b.key > 1000) /\ (\E c \in Blocks \ Placed : c.key > 1000)

\* offset an entry points to (value block or child directory)
OffOf(e) == at[e.key]

--------------------------------------------------------------------------------
Init == /\ pick \in UNION {kSubset(k, Universe) : k \in MinPick..MaxPick}
        /\ bulk \in Bulks /\ pad \in Pads /\ ifd0at \in Ifd0Ats /\ variant \in Variants
        /\ dirs = [d \in {"IFD0", "Exif", "GPS"} |-> DirCalc(d)]
        /\ lay = <<>> /\ at = <<>> /\ free = 0 /\ phase = "lay0"
        /\ po = 0 /\ pend = <<>> /\ cur = 1 /\ out = <<>> /\ dropped = {} /\ pc = "idle" /\ hdr = "IFD0" /\ reads = 0

readerVars == <<po, pend, cur, out, dropped, pc, hdr, reads>>
inputVars  == <<pick, bulk, pad, ifd0at, variant, dirs>>

\* IFD0 is always the first block
PlaceIfd0 == /\ phase = "lay0" /\ phase' = "lay"
             /\ free' = ifd0at + DirSize("IFD0") /\ at' = at /\ lay' = lay
             /\ UNCHANGED <<inputVars, readerVars>>
\* environment: append any block whose directory is already in the file (forward layouts only).
\* Bulk value blocks are placed in key order (their permutations add nothing).
Place == /\ phase = "lay"
         /\ \E b \in Blocks \ Placed :
              /\ (b.t = "val" => DirPlaced(b.ifd))
              /\ (b.key > 1000 => \A c \in Blocks \ Placed : c.key > 1000 => b.key <= c.key)
              /\ (BulkRunOpen => b.key > 1000)            \* ... and as one contiguous run, at any position among the other blocks
              /\ lay' = Append(lay, b)
              /\ at' = (b.key :> (free + pad)) @@ at
              /\ free' = free + pad + b.size
         /\ UNCHANGED <<phase, inputVars, readerVars>>
Laid == /\ phase = "lay" /\ Blocks \ Placed = {} /\ phase' = "read" /\ pc' = "begin"
        /\ UNCHANGED <<inputVars, lay, at, free, po, pend, cur, out, dropped, hdr, reads>>

TiffLen == free                                   \* length of the TIFF payload (JPEG: ExifLength)
Limit   == IF variant = "jpeg" THEN TiffLen ELSE 4194304

--------------------------------------------------------------------------------
(* the reader *)
\* DecodeTiff / DecodeJPEGIfd: po = 0, discard(firstIfdOffset).  DecodeIfd (CR3/HEIF hand-off): the
\* container has consumed the 8 header bytes; the design skips the rest up to the first directory.
Begin == /\ pc = "begin" /\ po' = ifd0at /\ pc' = "hdr" /\ hdr' = "IFD0"
         /\ UNCHANGED <<inputVars, lay, at, free, phase, pend, cur, out, dropped, reads>>

\* sorted insertion with the code's rule (addTagBuffer); returns <<pending, droppedReason>>
InsPos(p, t) ==      \* index after the last element with a smaller offset (scan from the end)
  LET smaller == {i \in 1..Len(p) : p[i].off < t.off}
  IN  IF smaller = {} THEN 0 ELSE CHOOSE i \in smaller : \A j \in smaller : j <= i
Insert(p, t, poNow) ==
  IF t.off < poNow THEN [p |-> p, drop |-> "reverse"]
  ELSE IF Len(p) >= MaxPending THEN [p |-> p, drop |-> "full"]
  ELSE LET i == InsPos(p, t)
       IN IF i = 0 /\ Len(p) > 0 /\ t.off = p[1].off THEN [p |-> p, drop |-> "equalmin"]   \* the code drops a tie with the smallest
          ELSE [p |-> SubSeq(p, 1, i) \o <<t>> \o SubSeq(p, i+1, Len(p)), drop |-> "-"]

\* processing the entries of one directory header, in directory order
RECURSIVE Proc(_, _, _, _)
Proc(es, poNow, st, k) ==
  IF k > Len(es) THEN st
  ELSE LET e == es[k] IN
       CASE Kind(e.cls) = "inv" -> Proc(es, poNow, st, k+1)
         [] Kind(e.cls) = "emb" -> Proc(es, poNow, [st EXCEPT !.out = IF Known(e.cls) THEN Append(@, e.key) ELSE @], k+1)
         [] OTHER ->
              LET t == [key |-> e.key, off |-> OffOf(e), kind |-> IF Kind(e.cls) = "ptr" THEN "ifd" ELSE "val",
                        cls |-> e.cls, size |-> SizeOf(e.cls)]
                  r == Insert(st.pend, t, poNow)
              IN Proc(es, poNow, [st EXCEPT !.pend = r.p, !.dropped = IF r.drop = "-" THEN @ ELSE @ \cup {<<e.key, r.drop>>}], k+1)

\* the element after the current one, bounds-checked (the design never looks past the list)
NextOff(p, c) == IF c + 1 <= Len(p) THEN p[c+1].off ELSE 0

\* readIfdHeader: count (2), entries (12 each), insertion, next-IFD pointer (4, read only when nothing pending lies before it)
ReadHdr == /\ pc = "hdr"
           /\ LET es  == Dir(hdr)
                  po1 == po + 2 + 12 * Len(es)
                  st  == Proc(es, po1, [pend |-> pend, out |-> out, dropped |-> dropped], 1)
                  rd  == NextOff(st.pend, cur) <= po1
              IN /\ pend' = st.pend /\ out' = st.out /\ dropped' = st.dropped
                 /\ po' = IF rd THEN po1 + 4 ELSE po1
                 /\ reads' = reads + 1
           /\ pc' = IF hdr = "IFD0" THEN "loop" ELSE "adv"
           /\ UNCHANGED <<inputVars, lay, at, free, phase, cur, hdr>>

\* The loop-head steps are written for an explicit list index c, without their control guard, so that the trace
\* acceptor can compose them with the silent Advance (the code emits one event per loop iteration).
\* loop head on a pointer tag: seekToTag, resetPosition, read the child directory
LoopIfdAt(c) == /\ c <= Len(pend) /\ pend[c].kind = "ifd"
                /\ po' = IF pend[c].off >= po THEN pend[c].off ELSE po
                /\ pend' = SubSeq(pend, c, Len(pend)) /\ cur' = 1
                /\ hdr' = Child(pend[c].cls) /\ pc' = "hdr"
                /\ UNCHANGED <<inputVars, lay, at, free, phase, out, dropped, reads>>
\* loop head on a value tag: discard up to the value, read it, assign the field
LoopValAt(c) == /\ c <= Len(pend) /\ pend[c].kind = "val"
                /\ IF Known(pend[c].cls) /\ pend[c].off >= po /\ pend[c].off + pend[c].size <= Limit
                     THEN po' = pend[c].off + pend[c].size /\ out' = Append(out, pend[c].key) /\ reads' = reads + 1
                     ELSE UNCHANGED <<po, out, reads>>            \* foreign tag: nothing is read
                /\ pc' = "adv" /\ cur' = c
                /\ UNCHANGED <<inputVars, lay, at, free, phase, pend, dropped, hdr>>
LoopIfd == pc = "loop" /\ LoopIfdAt(cur)
LoopVal == pc = "loop" /\ LoopValAt(cur)
\* advanceBuffer: never steps beyond the end of the list
Advance == /\ pc = "adv" /\ cur' = cur + 1 /\ pc' = "loop"
           /\ UNCHANGED <<inputVars, lay, at, free, phase, po, pend, out, dropped, hdr, reads>>
\* DecodeJPEGIfd finally discards up to ExifLength, so the caller stands at the end of the payload
FinishAt(c) == /\ c > Len(pend)
               /\ po' = IF variant = "jpeg" THEN Limit ELSE po
               /\ pc' = "done"
               /\ UNCHANGED <<inputVars, lay, at, free, phase, pend, cur, out, dropped, hdr, reads>>
Finish == pc = "loop" /\ FinishAt(cur)

Stutter == pc = "done" /\ UNCHANGED vars
Next == PlaceIfd0 \/ Place \/ Laid \/ Begin \/ ReadHdr \/ LoopIfd \/ LoopVal \/ Advance \/ Finish \/ Stutter
Spec == Init /\ [][Next]_vars /\ WF_vars(Begin \/ ReadHdr \/ LoopIfd \/ LoopVal \/ Advance \/ Finish)

--------------------------------------------------------------------------------
WithinLimits == /\ \A d \in {"IFD0", "Exif", "GPS"} : Len(Dir(d)) <= 128
                /\ Cardinality({e \in AllEntries : Kind(e.cls) \in {"ool", "ptr"}}) <= MaxPending
ExpectedKeys == {e.key : e \in {x \in pick : Known(x.cls)}}
OutKeys      == {out[i] : i \in 1..Len(out)}

TypeOK     == /\ pc \in {"idle", "begin", "hdr", "loop", "adv", "done"} /\ cur \in 1..(MaxPending + 2)
              /\ Len(pend) <= MaxPending /\ po \in 0..(free + 4)
\* the pending list is sorted by offset
Sorted     == \A i \in 1..(Len(pend) - 1) : pend[i].off <= pend[i+1].off
\* nothing pending lies behind the stream position (forward layouts)
Forward    == /\ (pc = "loop" => \A i \in cur..Len(pend) : pend[i].off >= po)
              /\ (pc \in {"adv", "hdr"} => \A i \in (cur + 1)..Len(pend) : pend[i].off >= po)
\* no index beyond the live part of the list is ever dereferenced: in the design every access is
\* guarded (NextOff, the loop guards); the trace acceptor rejects any recorded access with idx >= len
NoStaleIdx == pc \in {"loop", "adv"} => cur >= 1 /\ cur <= Len(pend) + 1
\* the stream position is where the layout says the directory / value is
PosInv     == /\ (pc = "hdr" => po = (IF hdr = "IFD0" THEN ifd0at ELSE at[IF hdr = "Exif" THEN 900 ELSE 901]))
              /\ (pc = "done" /\ variant = "jpeg" => po = TiffLen)
\* C03: in a forward layout within the limits nothing is dropped and every field is reported, once
NoDropWF   == WithinLimits => dropped = {}
Exact      == (pc = "done" /\ WithinLimits) => OutKeys = ExpectedKeys /\ Len(out) = Cardinality(ExpectedKeys)
\* beyond the limit only "full" drops happen, and only then
DropsOnlyFull == \A d \in dropped : d[2] = "full"
\* C02
Progress   == [][pc = "loop" /\ pc' = "adv" /\ out' # out => po' > po]_vars
Terminates == <>(pc = "done")

\* one case per terminal state: the abstract file (for the concretiser) and the specified outcome.
\* The bulk filler (keys > 1000: a contiguous run of 8-byte value blocks, entries at the end of IFD0)
\* is emitted as (bulk, bulkAt) only; the concretiser re-creates it (records stay below 8 KiB).
NoBulk(sq) == SelectSeq(sq, LAMBDA x : x.key <= 1000)
Emit == (pc = "done" /\ OutFile # "") =>
          CSVWrite("%1$s", <<ToJson([
             pick |-> SetToSortSeq(pick, LAMBDA a, b : a.key < b.key), bulk |-> bulk, pad |-> pad, ifd0at |-> ifd0at, variant |-> variant,
             dirs |-> [IFD0 |-> NoBulk(Dir("IFD0")), Exif |-> Dir("Exif"), GPS |-> Dir("GPS")],
             lay |-> NoBulk(lay), offs |-> [i \in 1..Len(NoBulk(lay)) |-> at[NoBulk(lay)[i].key]],
             bulkAt |-> IF bulk > 0 THEN at[1001] ELSE 0, len |-> TiffLen,
             out |-> out, dropped |-> SetToSeq(dropped), reads |-> reads])>>, OutFile)
=============================================================================
