------------------------------ MODULE MC_Decode ------------------------------
(* Input kinds of Decode.tla: what the harness builds for each kind            *)
(* (harness/props/x01.go) - sniffed type and the structure the routes look at. *)
EXTENDS Decode

AllEntries == {"Decode", "DecodeTiff", "DecodeCR2", "DecodeHeif", "DecodeJPEG", "DecodePng", "DecodeCR3", "PreviewCR3"}
AllKinds == {"jpeg0", "jpeg1", "jpeg2", "jpegxe", "jpegex", "tiff", "tiffBE", "cr2", "rw2", "cr3", "cr3split", "avif", "heif", "heif0",
             "png1", "png0", "gif", "bmp", "webp", "crw", "psd", "xmp", "ppm", "unknown", "short"}

MCTypeOf(k) == CASE k \in {"jpeg0", "jpeg1", "jpeg2", "jpegxe", "jpegex"} -> "JPEG" [] k \in {"tiff", "tiffBE"} -> "TIFF" [] k = "cr2" -> "CR2"
                 [] k = "rw2" -> "PanaRAW" [] k \in {"cr3", "cr3split"} -> "CR3" [] k = "avif" -> "AVIF"
                 [] k \in {"heif", "heif0"} -> "HEIF" [] k \in {"png1", "png0"} -> "PNG" [] k = "gif" -> "GIF" [] k = "bmp" -> "BMP"
                 [] k = "webp" -> "WebP" [] k = "crw" -> "CRW" [] k = "psd" -> "PSD" [] k = "xmp" -> "XMP" [] k = "ppm" -> "PPM"
                 [] k = "unknown" -> "Unknown" [] k = "short" -> "Short"
\* a TIFF signature occurs somewhere in the file (the search runs to the end of the stream)
MCHasSig(k) == k \in {"jpeg1", "jpeg2", "jpegxe", "jpegex", "tiff", "tiffBE", "cr2", "cr3", "cr3split", "avif", "heif", "png1"}
\* jpegxe / jpegex: an APP1 XMP packet before / after the Exif segment; the entry points pass no XMP callback, so the
\* packet is skipped like any other segment and the history is that of jpeg1
MCExifSegs(k) == CASE k \in {"jpeg1", "jpegxe", "jpegex"} -> 1 [] k = "jpeg2" -> 2 [] OTHER -> 0
MCCmts(k) == CASE k = "cr3" -> 1 [] k = "cr3split" -> 3 [] OTHER -> 0
MCHasPrev(k) == k \in {"cr3", "cr3split"}
MCPngExif(k) == k = "png1"
=============================================================================
