-------------------------------- MODULE Bmff --------------------------------
(* ISOBMFF box reader of isobmff (ReadFTYP / ReadMetadata) on Canon CR3 shaped *)
(* files: property C11 (containment, top-level resynchronisation, exact CR3    *)
(* payload hand-off), C02 (progress).                                          *)
(*                                                                             *)
(* Abstract input: a box tree in document order, nodes [typ, depth, hdr, own]: *)
(* header length 8 or 16 (64-bit size form), own = payload bytes that precede  *)
(* the children (uuid user type, leaf payload).  TLC chooses the children of   *)
(* the Canon metadata uuid box, the boxes around it, the top-level boxes after *)
(* moov, which box uses the 64-bit form, and at most one size LIE (declared    *)
(* size differs from the actual size).  Positions are real byte offsets,       *)
(* computed twice: Start/Size/End from the layout, and off/remain by the       *)
(* reader with the code's arithmetic (every frame's remain is decremented by   *)
(* every Discard; Peek/Discard are refused when ANY frame has less left).      *)
(* One action per critical step of the code: OpenTop (readBox), OpenInner      *)
(* (readInnerBox), Own (user type / fixed fields), HandOff (callback), Close   *)
(* (box.close), Return.  Callbacks are environment: they consume none / part / *)
(* all of what they are offered.                                               *)
EXTENDS Integers, Sequences, FiniteSets, TLC, Json, CSV

CONSTANTS KidTypes, MaxKids, TailTypes, MaxTail, Lies, OutFile

VARIABLES kids, tail, pre, post, big, lie, cons,    \* input and environment choices (fixed in Init)
          i,          \* index of the next node to open (document order)
          off,        \* reader position
          stack,      \* frames [n, start, decl, remain]
          calls,      \* callbacks so far: [kind, n, from, upto, first]
          tops,       \* reader position after each completed top-level call
          pc

vars == <<kids, tail, pre, post, big, lie, cons, i, off, stack, calls, tops, pc>>

N(t, d, h, o) == [typ |-> t, depth |-> d, hdr |-> h, own |-> o]
Own(t) == CASE t = "CNCV" -> 30 [] t = "CTBO" -> 44 [] t = "CMT1" -> 40 [] t = "CMT2" -> 64 [] t = "CMT3" -> 32 [] t = "CMT4" -> 52
            [] t = "free" -> 9 [] t = "uuidx" -> 16 + 70 [] t = "uuidp" -> 16 + 8 + 24 + 33 [] t = "uuido" -> 16 + 9
            [] t = "unk" -> 11 [] t = "mdat" -> 40 [] t = "mvhd" -> 20 [] t = "trak" -> 12 [] t = "ftyp" -> 16
            [] t = "uuidm" -> 16 [] OTHER -> 0
H(name) == IF big = name THEN 16 ELSE 8
Nodes == <<N("ftyp", 0, 8, 16), N("moov", 0, H("moov"), 0)>>
         \o (IF pre THEN <<N("mvhd", 1, 8, Own("mvhd"))>> ELSE <<>>)
         \o <<N("uuidm", 1, H("uuidm"), 16)>>
         \o [k \in 1..Len(kids) |-> N(kids[k], 2, IF k = 1 THEN H("kid1") ELSE 8, Own(kids[k]))]
         \o (IF post THEN <<N("trak", 1, 8, Own("trak"))>> ELSE <<>>)
         \o [t \in 1..Len(tail) |-> N(tail[t], 0, IF t = 1 THEN H("tail1") ELSE 8, Own(tail[t]))]
NN == Len(Nodes)
RECURSIVE SumBytes(_, _)
SumBytes(a, b) == IF a > b THEN 0 ELSE Nodes[a].hdr + Nodes[a].own + SumBytes(a + 1, b)
SubEnd(n) == LET later == {j \in (n+1)..NN : Nodes[j].depth <= Nodes[n].depth}
             IN IF later = {} THEN NN ELSE (CHOOSE j \in later : \A k \in later : j <= k) - 1
Start(n) == SumBytes(1, n - 1)
Size(n)  == SumBytes(n, SubEnd(n))
FileLen  == SumBytes(1, NN)
\* where the lie sits
UuidmIdx == IF pre THEN 4 ELSE 3
LieIdx == CASE lie.who = "moov" -> 2 [] lie.who = "uuidm" -> UuidmIdx [] lie.who = "kid1" -> UuidmIdx + 1
            [] lie.who = "kidLast" -> UuidmIdx + Len(kids) [] lie.who = "tail1" -> NN - Len(tail) + 1 [] OTHER -> 0
\* "uuidmKid": the metadata uuid box AND its last child overstate by the same amount (a consistent pair:
\* the child still fits its parent, only the grandparent - moov - tells that both lie)
LieSet == IF lie.who = "uuidmKid" THEN {UuidmIdx, UuidmIdx + Len(kids)} ELSE {LieIdx}
Decl(n) == IF n \notin LieSet THEN Size(n)
           ELSE CASE lie.cls = "minus1" -> Size(n) - 1 [] lie.cls = "plus4" -> Size(n) + 4 [] lie.cls = "plus100" -> Size(n) + 100
                  [] lie.cls = "zero" -> 0 [] OTHER -> Nodes[n].hdr - 1
WellFormed == lie.who = "none"

SeqsUpTo(S, n) == UNION {[1..k -> S] : k \in 0..n}
Init == /\ kids \in SeqsUpTo(KidTypes, MaxKids) /\ tail \in SeqsUpTo(TailTypes, MaxTail)
        /\ pre \in BOOLEAN /\ post \in BOOLEAN
        /\ big \in {"none", "moov", "uuidm", "kid1", "tail1"}
        /\ (big = "kid1" => Len(kids) > 0) /\ (big = "tail1" => Len(tail) > 0)
        /\ lie \in Lies
        /\ (lie.who \in {"kid1", "kidLast", "uuidmKid"} => Len(kids) > 0) /\ (lie.who = "tail1" => Len(tail) > 0)
        /\ cons \in {"none", "part", "all"}
        /\ (cons # "all" => \E k \in 1..Len(tail) : tail[k] = "uuidx")      \* only the XMP callback may under-read (the Exif reader consumes its box)
        /\ pre = post
        /\ i = 1 /\ off = 0 /\ stack = <<>> /\ calls = <<>> /\ tops = <<>> /\ pc = "top"

Depth == Len(stack)
Top   == stack[Depth]
CanTake(n) == \A f \in 1..Depth : stack[f].remain >= n                 \* box.Peek / box.Discard: every level of the chain has n left
Take(n) == /\ off' = off + n
           /\ stack' = [f \in 1..Depth |-> [stack[f] EXCEPT !.remain = @ - n]]
Containers == {"moov", "uuidm"}

\* readBox / readInnerBox: frame the next box where the reader stands
Open == /\ pc \in {"top", "kids"} /\ i <= NN
        /\ (pc = "top" => Depth = 0 /\ Nodes[i].depth = 0)
        /\ (pc = "kids" => Depth > 0 /\ Nodes[i].depth = Depth)
        /\ IF off # Start(i) THEN pc' = "desync" /\ UNCHANGED <<i, off, stack, calls, tops>>      \* only after a lie: bytes no longer mean what the tree says
           ELSE IF Decl(i) < Nodes[i].hdr \/ ~(\A f \in 1..Depth : stack[f].remain >= Nodes[i].hdr)
                THEN pc' = "error" /\ UNCHANGED <<i, off, stack, calls, tops>>                     \* header does not fit: refused
           ELSE /\ off' = off + Nodes[i].hdr
                /\ stack' = Append([f \in 1..Depth |-> [stack[f] EXCEPT !.remain = @ - Nodes[i].hdr]],
                                   [n |-> i, start |-> off, decl |-> Decl(i), remain |-> Decl(i) - Nodes[i].hdr])
                /\ i' = i + 1 /\ pc' = "own" /\ UNCHANGED <<calls, tops>>
        /\ UNCHANGED <<kids, tail, pre, post, big, lie, cons>>

\* the fixed-position part of a box the handler reads itself: uuid user type (16), PRVW prologue (8 + 24), TIFF header of a CMT box (8)
OwnLen(t) == CASE t \in {"uuidm", "uuidx", "uuido"} -> 16 [] t = "uuidp" -> 16 + 8 + 24 [] t \in {"CMT1", "CMT2", "CMT3", "CMT4"} -> 8 [] OTHER -> 0
FirstIfd(t) == CASE t = "CMT1" -> 1 [] t = "CMT2" -> 3 [] t = "CMT3" -> 6 [] t = "CMT4" -> 4 [] OTHER -> 0   \* ifds.IFD0, ExifIFD, MknoteIFD, GPSIFD
CbKind(t) == CASE t \in {"CMT1", "CMT2", "CMT3", "CMT4"} -> "exif" [] t = "uuidx" -> "xmp" [] t = "uuidp" -> "prev" [] OTHER -> "-"
Offered(t, rem) == IF t = "uuidp" THEN (IF rem < 33 THEN rem ELSE 33) ELSE rem       \* the preview callback is offered the declared jpeg size
Taken(t, n) == IF t # "uuidx" \/ cons = "all" THEN n ELSE IF cons = "part" THEN (IF n >= 20 THEN 20 ELSE n) ELSE 0

OwnStep == /\ pc = "own"
           /\ LET t == Nodes[Top.n].typ IN
              IF ~CanTake(OwnLen(t)) THEN pc' = "error" /\ UNCHANGED <<off, stack, calls>>
              ELSE /\ Take(OwnLen(t))
                   /\ pc' = IF t \in Containers THEN "kids" ELSE IF CbKind(t) # "-" THEN "cb" ELSE "close"
                   /\ UNCHANGED calls
           /\ UNCHANGED <<kids, tail, pre, post, big, lie, cons, i, tops>>

\* hand-off: the callback is offered exactly what is left of the box; it consumes none / part / all of it
HandOff == /\ pc = "cb"
           /\ LET t == Nodes[Top.n].typ
                  n == Offered(t, Top.remain)
                  k == Taken(t, n)
              IN /\ calls' = Append(calls, [kind |-> CbKind(t), n |-> Top.n, from |-> off, upto |-> off + n, first |-> FirstIfd(t), took |-> k])
                 /\ IF CanTake(k) THEN Take(k) /\ pc' = "close" ELSE pc' = "error" /\ UNCHANGED <<off, stack>>
           /\ UNCHANGED <<kids, tail, pre, post, big, lie, cons, i, tops>>

\* the children of a container are exhausted when fewer than 8 bytes are left in it
KidsDone == /\ pc = "kids" /\ (IF i > NN THEN TRUE ELSE (IF Nodes[i].depth < Depth THEN TRUE ELSE Top.remain < 8))
            /\ pc' = "close" /\ UNCHANGED <<kids, tail, pre, post, big, lie, cons, i, off, stack, calls, tops>>

\* box.close(): discard what is left of the box -- allowed only if every enclosing box has that much left
Close == /\ pc = "close"
         /\ IF ~CanTake(Top.remain) THEN pc' = "error" /\ UNCHANGED <<off, stack, tops, i>>
            ELSE /\ off' = off + Top.remain
                 /\ stack' = [f \in 1..(Depth - 1) |-> [stack[f] EXCEPT !.remain = @ - Top.remain]]
                 /\ i' = SubEnd(Top.n) + 1                                 \* unread children are skipped with the box
                 /\ IF Depth = 1 THEN tops' = Append(tops, off + Top.remain) /\ pc' = "top"
                    ELSE UNCHANGED tops /\ pc' = "kids"
         /\ UNCHANGED <<kids, tail, pre, post, big, lie, cons, calls>>

Finish == /\ pc = "top" /\ i > NN /\ pc' = "done" /\ UNCHANGED <<kids, tail, pre, post, big, lie, cons, i, off, stack, calls, tops>>
Stutter == pc \in {"done", "error", "desync"} /\ UNCHANGED vars
Next == Open \/ OwnStep \/ HandOff \/ KidsDone \/ Close \/ Finish \/ Stutter
Spec == Init /\ [][Next]_vars /\ WF_vars(Open \/ OwnStep \/ HandOff \/ KidsDone \/ Close \/ Finish)

----------------------------------------------------------------------------
TypeOK == /\ pc \in {"top", "kids", "own", "cb", "close", "done", "error", "desync"} /\ off \in 0..(FileLen + 200) /\ Depth <= 3
End(f) == stack[f].start + stack[f].decl
\* C11: no read escapes its box nor any enclosing box (declared ends), whatever the sizes say
Contain  == \A f \in 1..Depth : off <= End(f)
\* the code's remain bookkeeping agrees with the layout arithmetic
RemainOK == \A f \in 1..Depth : stack[f].remain = End(f) - off
\* C11: after a top-level box the reader stands exactly at the next top-level box
AfterTop == WellFormed => \A k \in 1..Len(tops) :
              \E n \in 1..NN : (/\ Nodes[n].depth = 0 /\ tops[k] = Start(n) + Size(n)
                                 /\ Cardinality({m \in 1..n : Nodes[m].depth = 0}) = k)
\* C11: callbacks are offered exactly the payload of their box, with the directory type of the box
PayloadStart(n) == Start(n) + Nodes[n].hdr + OwnLen(Nodes[n].typ)
PayloadEnd(n)   == Start(n) + Size(n)
Payload  == WellFormed => \A k \in 1..Len(calls) : LET c == calls[k] IN
              /\ c.from = PayloadStart(c.n) /\ c.upto = PayloadEnd(c.n)
              /\ c.first = FirstIfd(Nodes[c.n].typ) /\ c.kind = CbKind(Nodes[c.n].typ)
AllHanded == (WellFormed /\ pc = "done") =>
              {calls[k].n : k \in 1..Len(calls)} = {n \in 1..NN : CbKind(Nodes[n].typ) # "-"}
NoErrorWF == WellFormed => pc \notin {"error", "desync"}
Progress  == [][(off' >= off) /\ ((pc \in {"top", "kids"} /\ pc' = "own") => off' >= off + 8)]_vars     \* the position never moves back; every box opened costs at least its header
Terminates == <>(pc \in {"done", "error", "desync"})

Emit == (pc \in {"done", "error", "desync"} /\ OutFile # "") =>
          CSVWrite("%1$s", <<ToJson([nodes |-> [n \in 1..NN |-> [typ |-> Nodes[n].typ, depth |-> Nodes[n].depth, hdr |-> Nodes[n].hdr, own |-> Nodes[n].own,
                                                               start |-> Start(n), size |-> Size(n), decl |-> Decl(n)]],
                                      cons |-> cons, lie |-> lie, calls |-> calls, tops |-> tops, res |-> pc, len |-> FileLen])>>, OutFile)
=============================================================================
