----------------------------- MODULE Trace_Exif -----------------------------
(* Trace acceptor for the exif2 IFD reader (CLOSED traces: the "start" event  *)
(* written by the harness carries the abstract file the bytes were built      *)
(* from: directories, block offsets, hand-off variant, payload length).       *)
(* Events (package exif):                                                     *)
(*   begin  a = <<variant 1 tiff | 2 jpeg | 3 ifd, po, exifLength, ifd0>>      *)
(*   hdr    a = <<ifdType, po after the count, count>>      readIfdHeader      *)
(*   ins    a = <<id, offset, index, len after>>            addTagBuffer       *)
(*   drop   a = <<id, offset, 1 reverse | 2 full-or-tie, po | len>>            *)
(*   nextq  a = <<offset of the next pending tag, po, pos, len>>               *)
(*   loop   a = <<pos, len, po, id, offset, type>>          readIfd loop head  *)
(*   val    a = <<id, offset, size, po before>>             readTagValue       *)
(*   end    a = <<po, errclass>>                                               *)
(* Every accepting step is the design's own action (Exif!ReadHdr, LoopIfdAt,  *)
(* LoopValAt, FinishAt, with the silent Advance folded in) plus equality of   *)
(* what the code logged with what the design computes: list position, list    *)
(* length, stream position, value offset.  Sorted / Forward / NoStaleIdx are  *)
(* evaluated in every state.                                                  *)
EXTENDS Exif

CONSTANTS TraceFile
Trace == ndJsonDeserialize(TraceFile)

VARIABLES l, lastval, skipset     \* skipset: keys of out-of-line entries the library documents as shadowed by an earlier field
tvars == <<vars, l, lastval, skipset>>

Ev(e) == l <= Len(Trace) /\ Trace[l].e = e /\ l' = l + 1
A(k)  == Trace[l].a[k]
IfdCode(h) == CASE h = "IFD0" -> 1 [] h = "Exif" -> 3 [] OTHER -> 4

TInit == /\ l = 1 /\ lastval = 0 /\ skipset = {}
         /\ pick = {} /\ bulk = 0 /\ pad = 0 /\ ifd0at = 8 /\ variant = "tiff"
         /\ dirs = [d \in {"IFD0", "Exif", "GPS"} |-> <<>>]
         /\ lay = <<>> /\ at = <<>> /\ free = 0 /\ phase = "read"
         /\ po = 0 /\ pend = <<>> /\ cur = 1 /\ out = <<>> /\ dropped = {} /\ pc = "done" /\ hdr = "IFD0" /\ reads = 0

TStart == /\ Ev("start") /\ pc = "done"
          /\ dirs' = Trace[l].dirs /\ variant' = Trace[l].variant /\ ifd0at' = Trace[l].ifd0at /\ free' = Trace[l].len
          /\ at' = [k \in {Trace[l].ats[j].key : j \in 1..Len(Trace[l].ats)} |->
                      (Trace[l].ats[CHOOSE j \in 1..Len(Trace[l].ats) : Trace[l].ats[j].key = k]).off]
          /\ pick' = {} /\ bulk' = 0 /\ pad' = 0 /\ lay' = <<>> /\ phase' = "read"
          /\ po' = 0 /\ pend' = <<>> /\ cur' = 1 /\ out' = <<>> /\ dropped' = {} /\ pc' = "begin" /\ hdr' = "IFD0" /\ reads' = 0
          /\ lastval' = 0 /\ skipset' = {Trace[l].skip[j] : j \in 1..Len(Trace[l].skip)}

TBegin == /\ Ev("begin") /\ Begin
          /\ A(1) = (CASE variant = "tiff" -> 1 [] variant = "jpeg" -> 2 [] OTHER -> 3)
          /\ A(2) = po' /\ A(4) = ifd0at /\ (variant = "jpeg" => A(3) = Limit)
          /\ UNCHANGED <<lastval, skipset>>
\* readIfdHeader: the count has been read; the design processes the whole header in one step
THdr == /\ Ev("hdr") /\ pc = "hdr"
        /\ A(1) = IfdCode(hdr) /\ A(2) = po + 2 /\ A(3) = Len(Dir(hdr))
        /\ ReadHdr /\ UNCHANGED <<lastval, skipset>>
\* details of that step as the code performs them: every insertion lands on an offset the design has pending
TIns == /\ Ev("ins") /\ pc \in {"loop", "adv"}
        /\ \E j \in 1..Len(pend) : pend[j].off = A(2)
        /\ A(4) <= Len(pend) /\ A(3) < A(4)                  \* the index used is inside the live part of the list
        /\ UNCHANGED <<vars, lastval, skipset>>
TDrop == /\ Ev("drop") /\ pc \in {"loop", "adv"}
         /\ (A(3) = 2 /\ A(4) >= MaxPending) \/ (A(3) = 2 /\ \E j \in 1..Len(pend) : pend[j].off = A(2)) \/ (A(3) = 1 /\ A(2) < A(4))
         /\ UNCHANGED <<vars, lastval, skipset>>
\* the next-IFD pointer decision: the position reported lies at the end of the entries or behind the pointer
TNextq == /\ Ev("nextq") /\ pc \in {"loop", "adv"}
          /\ po \in {A(2), A(2) + 4}
          /\ A(3) < A(4) \/ A(4) = 0 \/ A(3) = A(4)
          /\ UNCHANGED <<vars, lastval, skipset>>
\* one loop iteration: the silent Advance of the previous iteration is folded in
C == IF pc = "adv" THEN cur + 1 ELSE cur
TLoop == /\ Ev("loop") /\ pc \in {"loop", "adv"}
         /\ A(1) = C - 1 /\ A(2) = Len(pend) /\ A(1) < A(2)         \* position and length of the code's list are the design's
         /\ A(3) = po /\ A(5) = pend[C].off
         /\ IF pend[C].key \in skipset
              THEN /\ pc' = "adv" /\ cur' = C                               \* documented shadowing: the value is not read
                   /\ UNCHANGED <<inputVars, lay, at, free, phase, po, pend, out, dropped, hdr, reads>>
              ELSE (LoopIfdAt(C) \/ LoopValAt(C))
         /\ lastval' = (IF pend[C].kind = "val" /\ Known(pend[C].cls) /\ pend[C].key \notin skipset THEN pend[C].off ELSE 0)
         /\ UNCHANGED skipset
TVal == /\ Ev("val") /\ pc = "adv"
        /\ A(2) = lastval /\ A(2) = pend[cur].off /\ A(3) = pend[cur].size /\ A(4) <= A(2)
        /\ UNCHANGED <<vars, lastval, skipset>>
TEnd == /\ Ev("end") /\ pc \in {"loop", "adv"} /\ A(2) = 0
        /\ FinishAt(C) /\ A(1) = po'
        /\ UNCHANGED <<lastval, skipset>>

TNext == TStart \/ TBegin \/ THdr \/ TIns \/ TDrop \/ TNextq \/ TLoop \/ TVal \/ TEnd
TSpec == TInit /\ [][TNext]_tvars

Accepted == TLCGet("stats").diameter - 1 = Len(Trace)
=============================================================================
