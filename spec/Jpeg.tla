-------------------------------- MODULE Jpeg --------------------------------
(* JPEG marker scanner (jpeg.ScanJPEG): properties C10 (segment framing),     *)
(* C02/C01 (progress and totality of the scan loop).                          *)
(*                                                                            *)
(* Abstract input: SOI, segs[1..n], DQT, >= 64 bytes of image data, where a   *)
(* segment is [mk, cls, plen] -- marker kind, payload class, payload length   *)
(* (bytes after the 2-byte length field).  Positions are real byte offsets,   *)
(* computed twice: Start/PayloadStart/TiffStart from the LAYOUT, and off/disc *)
(* by the reader with the arithmetic of the code (size-8, +10, +33, size-31). *)
(* One action per critical step of the code: SOI, Latch (nextMarker returns), *)
(* Skip (ignoreMarker / SOF / DRI), ReadExif, ExifCb, ReadXMP, XmpCb, DQT.    *)
(* The callbacks are environment: the Exif callback consumes its declared     *)
(* length (the property's proviso), the XMP callback none / part / all.       *)
EXTENDS Integers, Sequences, TLC, Json, CSV

CONSTANTS MaxSegs, Shapes, Lead, OutFile
\* Shapes : set of records [mk, cls, plen];  Lead \subseteq {"soi", "none", "soi_eoi"}

VARIABLES segs, xcons, lead,          \* the input and the environment's choices (fixed in Init)
          off, disc, depth, cur, pc,  \* reader state: true offset, jr.discarded, jr.pos, segment index, control
          calls, res                  \* history of callback invocations; final result

vars == <<segs, xcons, lead, off, disc, depth, cur, pc, calls, res>>

DQT == [mk |-> "DQT", cls |-> "opaque", plen |-> 65]

MarkerByte(mk) ==
  CASE mk = "APP0" -> 224 [] mk = "APP1" -> 225 [] mk = "APP2" -> 226 [] mk = "APP13" -> 237 [] mk = "APP14" -> 238
    [] mk = "COM" -> 254 [] mk = "DRI" -> 221 [] mk = "SOF0" -> 192 [] mk = "SOF2" -> 194 [] mk = "DHT" -> 196 [] mk = "DQT" -> 219

N == Len(segs)                                   \* segs[N] is the DQT segment
SegLen(i) == 4 + segs[i].plen                    \* FF, marker, 2 length bytes, payload
RECURSIVE Start(_)
Start(i) == IF i = 1 THEN (IF lead = "none" THEN 0 ELSE IF lead = "soi" THEN 2 ELSE 4)
            ELSE Start(i-1) + SegLen(i-1)
PayloadStart(i) == Start(i) + 4
TiffStart(i)    == PayloadStart(i) + 6           \* after "Exif\0\0"
XmpStart(i)     == PayloadStart(i) + 29          \* after "http://ns.adobe.com/xap/1.0/\0"
Size(i)         == segs[i].plen + 2              \* the value of the 2-byte length field
StreamLen       == Start(N) + SegLen(N) + 64

IsExif(i) == segs[i].mk = "APP1" /\ segs[i].cls = "exif"
IsXmp(i)  == segs[i].mk = "APP1" /\ segs[i].cls = "xmp"

SeqsUpTo(S, n) == UNION {[1..k -> S] : k \in 0..n}

\* at most one maximum-length segment per stream (bounds the bytes replayed, not the behaviour)
OneBig(s) == \A i, j \in 1..Len(s) : (s[i].plen > 60000 /\ s[j].plen > 60000) => i = j
Init == /\ \E s \in SeqsUpTo(Shapes, MaxSegs) : OneBig(s) /\ segs = s \o <<DQT>>
        /\ lead \in Lead
        /\ xcons \in [1..Len(segs) -> {"none", "part", "all"}]
        /\ \A i \in 1..Len(segs) : (~(segs[i].mk = "APP1" /\ segs[i].cls = "xmp")) => xcons[i] = "none"
        /\ off = 0 /\ disc = 0 /\ depth = 0 /\ cur = 1 /\ pc = "start" /\ calls = <<>> /\ res = "-"

Adv(n) == off' = off + n /\ disc' = disc + n

\* nextMarker sees SOI: pos++, discard(2)
SOI == /\ pc = "start" /\ lead \in {"soi", "soi_eoi"}
       /\ depth' = depth + 1 /\ Adv(2)
       /\ pc' = IF lead = "soi" THEN "scan" ELSE "eoi"
       /\ UNCHANGED <<segs, xcons, lead, cur, calls, res>>
\* SOI directly followed by EOI: pos--, discard(2): the scanner is now OUTSIDE any image
EOI == /\ pc = "eoi" /\ depth' = depth - 1 /\ Adv(2) /\ pc' = "outside"
       /\ UNCHANGED <<segs, xcons, lead, cur, calls, res>>
NoSOI == /\ pc = "start" /\ lead = "none" /\ pc' = "outside" /\ UNCHANGED <<segs, xcons, lead, off, disc, depth, cur, calls, res>>
\* Intended design outside an image (depth 0): a marker that is not SOI is stepped over, one byte at
\* least per iteration; no SOI follows in these inputs, so the scan runs to the end: ErrNoJPEGMarker.
LaterStarts == {Start(i) : i \in 1..N} \cap (off+1)..StreamLen
NextFF == IF LaterStarts = {} THEN StreamLen - 63
          ELSE CHOOSE x \in LaterStarts : \A y \in LaterStarts : x <= y
Outside == /\ pc = "outside" /\ depth = 0
           /\ Adv(NextFF - off)                         \* step over the marker, skip to the next 0xFF (payloads here hold none)
           /\ pc' = IF off' >= StreamLen - 63 THEN "done" ELSE "outside"
           /\ res' = IF off' >= StreamLen - 63 THEN "nomarker" ELSE res
           /\ UNCHANGED <<segs, xcons, lead, depth, cur, calls>>

\* nextMarker returns true: marker, size and offset latched (offset := discarded)
Latch == /\ pc = "scan" /\ depth > 0
         /\ pc' = IF off = Start(cur) THEN "dispatch" ELSE "lost"
         /\ UNCHANGED <<segs, xcons, lead, off, disc, depth, cur, calls, res>>

SkipKinds == {"APP0", "APP2", "APP13", "APP14", "COM", "SOF0", "SOF2", "DHT"}
\* The dispatch steps are written without their control guard so that the trace acceptor can
\* compose them with Latch (the code emits one event for "marker latched", none for the dispatch).
\* ignoreMarker / readSOFMarker: discard(size + 2); APP1 that is neither Exif nor XMP is ignored too
SkipStep == /\ \/ segs[cur].mk \in SkipKinds
               \/ (segs[cur].mk = "APP1" /\ ~IsExif(cur) /\ ~IsXmp(cur))
            /\ Adv(Size(cur) + 2) /\ cur' = cur + 1 /\ pc' = "scan"
            /\ UNCHANGED <<segs, xcons, lead, depth, calls, res>>
\* DRI: discard(6)
DRIStep == /\ segs[cur].mk = "DRI"
           /\ Adv(6) /\ cur' = cur + 1 /\ pc' = "scan"
           /\ UNCHANGED <<segs, xcons, lead, depth, calls, res>>
\* DQT ends the scan
DQTStep == /\ segs[cur].mk = "DQT"
           /\ Adv(Size(cur) + 2) /\ pc' = "done" /\ res' = "nil"
           /\ UNCHANGED <<segs, xcons, lead, depth, cur, calls>>
\* readExif: discard(2 + 8); header := (byte order, first IFD, discarded, size - 8); call the Exif reader
ReadExifStep ==
            /\ IsExif(cur)
            /\ Adv(10)
            /\ calls' = Append(calls, [kind |-> "exif", i |-> cur, bo |-> segs[cur].bo, ifd0 |-> segs[cur].ifd0,
                                       tiffOff |-> disc + 10, len |-> Size(cur) - 8, from |-> off + 10, upto |-> off + 10 + Size(cur) - 8])
            /\ pc' = "exifcb"
            /\ UNCHANGED <<segs, xcons, lead, depth, cur, res>>
\* readXMP: discard(4 + 29); LimitReader(size - 2 - 29)
ReadXMPStep ==
           /\ IsXmp(cur)
           /\ Adv(33)
           /\ calls' = Append(calls, [kind |-> "xmp", i |-> cur, bo |-> "-", ifd0 |-> 0, tiffOff |-> 0, len |-> Size(cur) - 2 - 29,
                                      from |-> off + 33, upto |-> off + 33 + Size(cur) - 2 - 29])
           /\ pc' = "xmpcb"
           /\ UNCHANGED <<segs, xcons, lead, depth, cur, res>>
DispatchStep == SkipStep \/ DRIStep \/ DQTStep \/ ReadExifStep \/ ReadXMPStep

Skip     == pc = "dispatch" /\ SkipStep
DRI      == pc = "dispatch" /\ DRIStep
DQTEnd   == pc = "dispatch" /\ DQTStep
ReadExif == pc = "dispatch" /\ ReadExifStep
ReadXMP  == pc = "dispatch" /\ ReadXMPStep

\* the Exif callback consumes exactly its declared length (proviso); the design accounts for it in `discarded`
ExifCb == /\ pc = "exifcb"
          /\ Adv(calls[Len(calls)].len) /\ cur' = cur + 1 /\ pc' = "scan"
          /\ UNCHANGED <<segs, xcons, lead, depth, calls, res>>
XmpTake(i, lim) == CASE xcons[i] = "none" -> 0 [] xcons[i] = "part" -> lim \div 2 [] OTHER -> lim
\* the XMP callback consumes what it likes; the scanner discards what is left of the limit; all of it is accounted for
XmpCb == /\ pc = "xmpcb"
         /\ Adv(calls[Len(calls)].len) /\ cur' = cur + 1 /\ pc' = "scan"
         /\ UNCHANGED <<segs, xcons, lead, depth, calls, res>>

Stutter == pc \in {"done", "lost"} /\ UNCHANGED vars
Next == SOI \/ EOI \/ NoSOI \/ Outside \/ Latch \/ Skip \/ DRI \/ DQTEnd \/ ReadExif \/ ExifCb \/ ReadXMP \/ XmpCb \/ Stutter
Spec == Init /\ [][Next]_vars /\ WF_vars(SOI \/ EOI \/ NoSOI \/ Outside \/ Latch \/ Skip \/ DRI \/ DQTEnd \/ ReadExif \/ ExifCb \/ ReadXMP \/ XmpCb)

---------------------------------------------------------------------------------
TypeOK == /\ pc \in {"start", "eoi", "outside", "scan", "dispatch", "exifcb", "xmpcb", "done", "lost"}
          /\ off \in 0..StreamLen /\ disc \in 0..StreamLen /\ depth \in 0..2 /\ cur \in 1..(N+1)

\* C10: the Exif callback's header describes exactly the APP1 Exif payload
ExifArgs == \A k \in 1..Len(calls) : calls[k].kind = "exif" =>
              LET c == calls[k] IN /\ c.bo = segs[c.i].bo /\ c.ifd0 = segs[c.i].ifd0
                                  /\ c.tiffOff = TiffStart(c.i) /\ c.len = segs[c.i].plen - 6
                                  /\ c.from = TiffStart(c.i) /\ c.upto = PayloadStart(c.i) + segs[c.i].plen
\* C10: the XMP callback's reader yields exactly the packet bytes
XmpBytes == \A k \in 1..Len(calls) : calls[k].kind = "xmp" =>
              LET c == calls[k] IN c.from = XmpStart(c.i) /\ c.upto = PayloadStart(c.i) + segs[c.i].plen
\* C10: scanning resumes at the next marker ...
Resync   == pc # "lost" /\ (pc \in {"scan", "dispatch"} => off = Start(cur))
\* ... with correct absolute offsets
AbsOff   == disc = off
\* C10: all metadata segments before the first DQT are found, nothing else is mistaken for metadata
Found(kind) == {calls[k].i : k \in {j \in 1..Len(calls) : calls[j].kind = kind}}
AllFound == (pc = "done" /\ lead = "soi") => /\ Found("exif") = {i \in 1..N : IsExif(i)}
                                             /\ Found("xmp")  = {i \in 1..N : IsXmp(i)}
                                             /\ res = "nil"
NoFalse  == \A k \in 1..Len(calls) : (calls[k].kind = "exif" => IsExif(calls[k].i)) /\ (calls[k].kind = "xmp" => IsXmp(calls[k].i))
InOrder  == \A j, k \in 1..Len(calls) : j < k => calls[j].i < calls[k].i
\* C02: every step of the scan consumes input or terminates
Progress == [][(pc \notin {"done", "lost"} /\ pc' \notin {"done", "lost", "dispatch", "outside"} /\ pc # "start") => off' > off]_vars
OutsideProgress == [][pc = "outside" /\ pc' = "outside" => off' > off]_vars
Terminates == <>(pc \in {"done", "lost"})

Emit == (pc = "done" /\ OutFile # "") =>
          CSVWrite("%1$s", <<ToJson([segs |-> segs, xcons |-> xcons, lead |-> lead, calls |-> calls, res |-> res,
                                      starts |-> [i \in 1..N |-> Start(i)], len |-> StreamLen])>>, OutFile)
=============================================================================
