--------------------------------- MODULE Log ---------------------------------
(* Logging neutrality (property C15).                                          *)
(*                                                                             *)
(* A decoder is a sequence of STEPS over its result-relevant state; between    *)
(* steps it may execute log statements.  A log statement is guarded by the     *)
(* configured level; when enabled it evaluates its arguments -- plain fields,  *)
(* or a MARSHALER that iterates a count taken from the file over a fixed-size  *)
(* array (isobmff CTBO: file count over 5 items; iloc items; pending tags      *)
(* pos..len) -- and writes to the configured writer, which may fail.           *)
(* Design: (1) a log step never changes the decoder state (stuttering on       *)
(* `st`), whatever the level and whether the writer fails; (2) a marshaler     *)
(* indexes only Min(count, capacity) elements; (3) at the default level        *)
(* nothing is written anywhere.  The deviation `unguarded` iterates the raw    *)
(* file count (MarshalZerologArray of CTBOBox) and the deviation `print`       *)
(* writes to stdout unconditionally on an error path (moov.go).  The deviation *)
(* `peeking` computes a log argument from the reader's look-ahead (Peek): when *)
(* the buffered window ends inside the bytes the decoder still holds a view of *)
(* (`win`), the refill disturbs the decoder state -- only at enabling levels.  *)
EXTENDS Integers, Sequences, TLC

CONSTANTS Levels,      \* the 7 levels, ordered: 1 = trace ... 7 = panic (default)
          Sites,       \* sequence of log sites: [lvl, kind \in {"plain","marshal"}, cap]
          Counts,      \* file-declared counts a marshaler may iterate
          Mode         \* "guarded" | "unguarded" | "print" | "peeking"

VARIABLES level, wfail, count, win, \* configuration, file value, alignment of the file with the reader's window (fixed in Init)
          i,                     \* decoder step about to be executed (1..Len(Sites)+1)
          st,                    \* result-relevant decoder state (number of decoder steps taken)
          sink, stdout,          \* bytes written to the logger's writer / to the process' stdout
          idx,                   \* largest marshaler index used, and the capacity it was used against
          logged,                \* has the log statement of step i been executed?
          pc

vars == <<level, wfail, count, win, i, st, sink, stdout, idx, logged, pc>>
N == Len(Sites)
Min(a, b) == IF a < b THEN a ELSE b

Init == /\ level \in Levels /\ wfail \in BOOLEAN /\ count \in Counts /\ win \in BOOLEAN
        /\ i = 1 /\ st = 0 /\ sink = 0 /\ stdout = 0 /\ idx = [used |-> 0, cap |-> 0] /\ logged = FALSE /\ pc = "run"

\* the log statement in front of decoder step i (executed at most once; skipped when the level disables it)
LogStep == /\ pc = "run" /\ i <= N /\ ~logged
           /\ logged' = TRUE
           /\ IF level <= Sites[i].lvl
                THEN /\ sink' = IF wfail THEN sink ELSE sink + 1
                     /\ idx' = IF Sites[i].kind = "marshal"
                                 THEN [used |-> IF Mode = "unguarded" THEN count ELSE Min(count, Sites[i].cap), cap |-> Sites[i].cap]
                                 ELSE idx
                ELSE UNCHANGED <<sink, idx>>
           /\ stdout' = IF Mode = "print" /\ Sites[i].kind = "plain" /\ Sites[i].lvl = 5 THEN stdout + 1 ELSE stdout
           /\ st' = IF Mode = "peeking" /\ level <= Sites[i].lvl /\ Sites[i].kind = "plain" /\ Sites[i].lvl = 3 /\ win THEN st + 100 ELSE st
           /\ UNCHANGED <<level, wfail, count, win, i, pc>>
\* the decoder step itself: independent of everything the logger did
DecodeStep == /\ pc = "run" /\ i <= N /\ logged
              /\ st' = st + 1 /\ i' = i + 1 /\ logged' = FALSE
              /\ UNCHANGED <<level, wfail, count, win, sink, stdout, idx, pc>>
Finish == /\ pc = "run" /\ i > N /\ pc' = "done" /\ UNCHANGED <<level, wfail, count, win, i, st, sink, stdout, idx, logged>>
Stutter == pc = "done" /\ UNCHANGED vars
Next == LogStep \/ DecodeStep \/ Finish \/ Stutter
Spec == Init /\ [][Next]_vars /\ WF_vars(LogStep \/ DecodeStep \/ Finish)

TypeOK     == i \in 1..(N+1) /\ st \in Nat /\ pc \in {"run", "done"}
\* C15: log steps are stuttering steps of the result-relevant state
LogStutter == [][logged' /\ ~logged => st' = st /\ i' = i]_vars
\* the outcome is the same function of the input at every level / writer: st at the end is N
Neutral    == pc = "done" => st = N
\* marshalers stay inside their arrays
MarshalOK  == idx.used <= idx.cap \/ idx.cap = 0
\* default configuration (level 7 = panic): silent
Silent     == (level = 7 => sink = 0) /\ stdout = 0
Returns    == <>(pc = "done")
=============================================================================
