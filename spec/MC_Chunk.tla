------------------------------ MODULE MC_Chunk ------------------------------
EXTENDS Chunk
\* request sizes of the kind the unbuffered paths issue: PNG signature/chunk headers (8, 8),
\* IFD count (2), one entry (12), next-IFD pointer (4)
ScriptA == <<8, 8, 2, 12, 4>>
=============================================================================
