---------------------------- MODULE TiffScanOps ----------------------------
(* Pure operators of the TIFF header search (tiff.ScanTiffHeader), shared by *)
(* the design model TiffScan and the trace acceptor Trace_TiffScan.          *)
(* A stream is a sequence over the signature alphabet:                       *)
(*   "I" = 0x49, "M" = 0x4d, "S" = 0x2a ('*'), "Z" = 0x00, "X" = any other.  *)
EXTENDS Integers, Sequences

Sym == {"I", "M", "S", "Z", "X"}
LE  == <<"I", "I", "S", "Z">>
BE  == <<"M", "M", "Z", "S">>

At(s, i) == IF i >= 1 /\ i <= Len(s) THEN s[i] ELSE "X"

\* byte order of a signature starting at i ("NONE" if there is none)
OrderAt(s, i) ==
  LET w == <<At(s, i), At(s, i+1), At(s, i+2), At(s, i+3)>>
  IN  IF w = LE THEN "LE" ELSE IF w = BE THEN "BE" ELSE "NONE"

SigAt(s, i) == OrderAt(s, i) # "NONE"

\* the code looks at a window of W bytes; it needs all of them (bufio.Peek is all-or-error)
CanPeek(s, i, W) == i + W - 1 <= Len(s)

\* the advance rule of the code: 1 if the *second* byte of the window may start a signature, else 2
Adv(s, i) == IF At(s, i+1) \in {"I", "M"} THEN 1 ELSE 2

\* declarative meaning: index of the first signature that still has W bytes from its start, 0 if none
Sigs(s, W)     == {i \in 1..Len(s) : SigAt(s, i) /\ CanPeek(s, i, W)}
FirstSig(s, W) == IF Sigs(s, W) = {} THEN 0
                  ELSE CHOOSE i \in Sigs(s, W) : \A j \in Sigs(s, W) : i <= j
=============================================================================
