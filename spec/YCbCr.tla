-------------------------------- MODULE YCbCr --------------------------------
(* Index arithmetic of the YCbCr-to-gray conversions (property C20): pure      *)
(* integers.  An image is [ratio, minX, minY, w, ys, cs] (square, w x w, luma  *)
(* stride ys, chroma stride cs) with the plane offset rules of Go's            *)
(* image.YCbCr.  Two loop nests:                                               *)
(*  portable  for y, x in 0..w-1:  yi = YOffset(minX+x, minY+y),               *)
(*            ci = COffset(minX+x, minY+y), dst = y*w + x                      *)
(*  vector    (asmYCbCrToGray as its Go wrapper calls it) for y in minY..maxY, *)
(*            x in minX..maxX step 8: yIdx = y*ys + x, cIdx = y*cs + x (luma   *)
(*            coordinates), 8 loads at yIdx.., cIdx.., 8 stores at dst[yIdx..],*)
(*            the x loop ends when x = maxX.                                   *)
(* The dispatcher decides which nest an accepted image takes.  Design          *)
(* ("guarded"): the vector nest only for the layout on which its indices ARE   *)
(* the reference indices.  Deviation "always" (pinned tree): every YCbCr image *)
(* takes the vector nest.  Checked for every enumerated geometry, for all      *)
(* (x, y) inside one state.                                                    *)
EXTENDS Integers, Sequences, FiniteSets, TLC, Json, CSV

CONSTANTS Ratios, Widths, Origins, YPads, CPads, Mode, OutFile

VARIABLES g, pc
vars == <<g, pc>>

HDiv(r) == CASE r \in {444, 440} -> 1 [] r \in {422, 420} -> 2 [] OTHER -> 4      \* horizontal chroma subsampling
VDiv(r) == IF r \in {420, 440, 410} THEN 2 ELSE 1
CW(r, minX, w) == (minX + w + HDiv(r) - 1) \div HDiv(r) - minX \div HDiv(r)        \* chroma samples per row
CH(r, minY, w) == (minY + w + VDiv(r) - 1) \div VDiv(r) - minY \div VDiv(r)

Init == /\ g \in {[ratio |-> r, minX |-> o[1], minY |-> o[2], w |-> w, ys |-> w + yp, cs |-> CW(r, o[1], w) + cp] :
                     r \in Ratios, o \in Origins, w \in Widths, yp \in YPads, cp \in CPads}
        /\ pc = "check"

YOff(x, y) == (y - g.minY) * g.ys + (x - g.minX)
COff(x, y) == (y \div VDiv(g.ratio) - g.minY \div VDiv(g.ratio)) * g.cs + (x \div HDiv(g.ratio) - g.minX \div HDiv(g.ratio))
LenY == g.ys * g.w
LenC == g.cs * CH(g.ratio, g.minY, g.w)

Eligible == g.ratio = 444 /\ g.minX = 0 /\ g.minY = 0 /\ g.ys = g.w /\ g.cs = g.w /\ g.w % 8 = 0
UsesVector == IF Mode = "always" THEN TRUE ELSE Eligible

\* reference indices of pixel (x, y) of the rectangle, x, y in 0..w-1
RefY(x, y) == YOff(g.minX + x, g.minY + y)
RefC(x, y) == COff(g.minX + x, g.minY + y)
RefD(x, y) == y * g.w + x
\* the vector nest visits luma coordinates (X, Y) = (minX + x, minY + y)
VecY(x, y) == (g.minY + y) * g.ys + (g.minX + x)
VecC(x, y) == (g.minY + y) * g.cs + (g.minX + x)
VecD(x, y) == VecY(x, y)
XY == (0..(g.w - 1)) \X (0..(g.w - 1))

\* C20: the vector nest reads and writes exactly where the reference does ...
SameIdx  == UsesVector => \A p \in XY : VecY(p[1], p[2]) = RefY(p[1], p[2]) /\ VecC(p[1], p[2]) = RefC(p[1], p[2]) /\ VecD(p[1], p[2]) = RefD(p[1], p[2])
\* ... stays inside the planes and the destination (8 lanes per step) ...
InBounds == UsesVector => \A p \in {q \in XY : q[1] % 8 = 0} :
               VecY(p[1], p[2]) + 7 < LenY /\ VecC(p[1], p[2]) + 7 < LenC /\ VecD(p[1], p[2]) + 7 < g.w * g.w
\* ... and its x loop (step 8 from minX) meets maxX
Exits    == UsesVector => g.w % 8 = 0
\* the portable nest is always inside the planes
RefInBounds == \A p \in XY : RefY(p[1], p[2]) \in 0..(LenY - 1) /\ RefC(p[1], p[2]) \in 0..(LenC - 1)

Done == pc = "check" /\ pc' = "done" /\ UNCHANGED g
Stutter == pc = "done" /\ UNCHANGED vars
Next == Done \/ Stutter
Spec == Init /\ [][Next]_vars /\ WF_vars(Done)
Terminates == <>(pc = "done")

Emit == (pc = "done" /\ OutFile # "") => CSVWrite("%1$s", <<ToJson([g |-> g, vector |-> IF Eligible THEN 1 ELSE 0])>>, OutFile)
=============================================================================
