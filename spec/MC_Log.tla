------------------------------- MODULE MC_Log -------------------------------
EXTENDS Log
\* the log sites of one decode, by level and kind (counts of the code: debug/info plain statements,
\* info-level marshalers over 5 CTBO items / iloc items / 84 pending tags, error-level plain statements)
SitesA == << [lvl |-> 3, kind |-> "plain", cap |-> 0], [lvl |-> 3, kind |-> "marshal", cap |-> 5],
             [lvl |-> 2, kind |-> "plain", cap |-> 0], [lvl |-> 5, kind |-> "plain", cap |-> 0],
             [lvl |-> 4, kind |-> "marshal", cap |-> 84], [lvl |-> 1, kind |-> "plain", cap |-> 0] >>
=============================================================================
