----------------------------- MODULE EnumTables -----------------------------
(* Stringers of the exported enumeration types (property C17).                 *)
(*                                                                             *)
(* Per type: its value domain lo..hi, the DOCUMENTED names (value |-> name,    *)
(* written from the doc comments of the library and the Exif 2.32 / TIFF 6 /   *)
(* ExifTool tag tables they cite), the documented fallback for every other     *)
(* value, and the mechanism the code uses:                                     *)
(*   "index"  one concatenated string + offset table, guarded by a range test  *)
(*   "map"    map lookup with fallback                                         *)
(* The index mechanism is modelled as the code writes it: the name of value v  *)
(* is the slice between offsets v and v+1 of the offset table, reached only    *)
(* when Guard(v) holds.  Design: Guard(v) => 0 <= v < number of names, for     *)
(* EVERY value of the domain -- in particular the negative values of signed    *)
(* types (guard "signedNoLower" is the deviation: int(v) < len-1 alone).       *)
(* Totality + Names + Fallbacks are then properties of the design; the harness *)
(* replays the whole domain of every type on the real String() (and Extension, *)
(* FromString where the table says so) against exactly these tables.           *)
EXTENDS Integers, Sequences, FiniteSets, TLC, Json, CSV

CONSTANTS Tables,    \* sequence of [type, lo, hi, doc (sequence of <<value, name>>), fallback, mech, guard, indexed (number of names in the offset table), roundtrip]
          OutFile

VARIABLES t, v, pc, oob
vars == <<t, v, pc, oob>>

T == Tables[t]
DocValues(tb) == {tb.doc[k][1] : k \in 1..Len(tb.doc)}
NameOf(tb, x) == IF x \in DocValues(tb) THEN (tb.doc[CHOOSE k \in 1..Len(tb.doc) : tb.doc[k][1] = x])[2] ELSE tb.fallback

Guard(tb, x) == CASE tb.guard = "unsigned"      -> x < tb.indexed                 \* unsigned type: int(v) < len-1
                  [] tb.guard = "signedChecked" -> x >= 0 /\ x < tb.indexed
                  [] tb.guard = "signedNoLower" -> x < tb.indexed                 \* deviation on a signed type
                  [] OTHER                      -> FALSE                          \* map: no index at all

Init == t \in 1..Len(Tables) /\ v = Tables[t].lo /\ pc = "scan" /\ oob = {}
\* one step per BLOCK of the domain (the whole block is evaluated inside the step)
Block == 4096
Scan == /\ pc = "scan"
        /\ LET top == IF v + Block - 1 > T.hi THEN T.hi ELSE v + Block - 1
           IN /\ oob' = oob \cup {x \in v..top : T.mech = "index" /\ Guard(T, x) /\ ~(x >= 0 /\ x < T.indexed)}
              /\ IF top = T.hi THEN pc' = "done" /\ v' = v ELSE v' = top + 1 /\ pc' = "scan"
        /\ UNCHANGED t
Stutter == pc = "done" /\ UNCHANGED vars
Next == Scan \/ Stutter
Spec == Init /\ [][Next]_vars /\ WF_vars(Scan)

TypeOK    == t \in 1..Len(Tables) /\ pc \in {"scan", "done"}
\* C17: no reachable index outside the offset table, on the whole domain
NoOOB     == oob = {}
\* the documentation is a function (one name per value), inside the domain, and indexed names are contiguous from 0
DocOK     == \A tb \in {Tables[k] : k \in 1..Len(Tables)} :
               /\ \A a, b \in 1..Len(tb.doc) : a # b => tb.doc[a][1] # tb.doc[b][1]
               /\ \A k \in 1..Len(tb.doc) : tb.doc[k][1] \in tb.lo..tb.hi
               /\ (tb.mech = "index" => \A x \in 0..(tb.indexed - 1) : x \in tb.lo..tb.hi)
\* where parsing a documented name must give the value back, the names are pairwise different
RoundTripOK == \A tb \in {Tables[k] : k \in 1..Len(Tables)} : tb.roundtrip = 1 =>
                 \A a, b \in 1..Len(tb.doc) : a # b => tb.doc[a][2] # tb.doc[b][2]
Total     == <>(pc = "done")

Emit == (pc = "done" /\ OutFile # "") =>
          CSVWrite("%1$s", <<ToJson([type |-> T.type, lo |-> T.lo, hi |-> T.hi, doc |-> T.doc, fallback |-> T.fallback, roundtrip |-> T.roundtrip])>>, OutFile)
=============================================================================
