------------------------------ MODULE ImageType ------------------------------
(* Image-type sniffing (property C09): a total function of the first 24 bytes. *)
(* Two formulations over a header h \in [1..24 -> 0..255]:                     *)
(*   Decide(h)  - the ordered decision list, with the structure of             *)
(*                imagetype.parseBuffer (nested ftyp test, CR2 = TIFF + mark)  *)
(*   Sig / Prio - a declarative signature table written from the format        *)
(*                documents plus a specificity order                           *)
(* TLC checks that they agree (Sound, Complete, Total) on every enumerated     *)
(* header and emits each header with the specified type for replay on the      *)
(* real entry points (Buf, Scan, ScanBuf, ReadAt).                             *)
EXTENDS ImageTypeData, TLC, Json, CSV

CONSTANTS Mode,      \* "perturb": canonical header x 24 positions x 256 values
                     \* "cross"  : canonical header with a byte range taken from another canonical header
          OutFile

VARIABLES h, src, st \* src records how h was produced (observation only)

N == Len(Canon)

\* bytes off+1 .. off+Len(s) of hd equal s   (off is the 0-based offset used in format documents)
Eq(hd, off, s) == \A k \in 1..Len(s) : hd[off + k] = s[k]

--------------------------------------------------------------------------------
(* The decision list -- intended design, structure of the code *)
IsTiff(hd)   == Eq(hd, 0, S_TIFFLE) \/ Eq(hd, 0, S_TIFFBE)
IsFtyp(hd)   == hd[1] = 0 /\ hd[2] = 0 /\ Eq(hd, 4, S_ftyp)          \* size < 2^16 is a sanity bound of the design
Brand(hd, off, b) == Eq(hd, off, b)
IsCR3(hd)    == IsFtyp(hd) /\ Brand(hd, 8, S_crx)
IsAVIF(hd)   == IsFtyp(hd) /\ (Brand(hd, 8, S_avif) \/ (Brand(hd, 8, S_mif1) /\ Brand(hd, 20, S_avif)))
IsHEIF(hd)   == IsFtyp(hd) /\ (\/ Brand(hd, 8, S_heic) \/ Brand(hd, 8, S_heix)
                               \/ (Brand(hd, 8, S_mif1) /\ Brand(hd, 16, S_heic))
                               \/ (Brand(hd, 8, S_mif1) /\ Brand(hd, 20, S_heic))
                               \/ (Brand(hd, 8, S_msf1) /\ Brand(hd, 20, S_hevc)))

Decide(hd) ==
  IF Eq(hd, 0, S_SOI) THEN "JPEG"
  ELSE IF Eq(hd, 0, S_JP2) THEN "JPEG"          \* the pinned test TestScanImageType/.JP2 requires the JPEG type
  ELSE IF Eq(hd, 0, S_II) /\ Eq(hd, 6, S_HEAPCCDR) THEN "CRW"
  ELSE IF IsTiff(hd) /\ Eq(hd, 8, S_CR2) THEN "CR2"
  ELSE IF IsFtyp(hd) /\ IsCR3(hd) THEN "CR3"
  ELSE IF IsFtyp(hd) /\ IsAVIF(hd) THEN "AVIF"
  ELSE IF IsFtyp(hd) /\ IsHEIF(hd) THEN "HEIF"
  ELSE IF Eq(hd, 0, S_RW2A) /\ Eq(hd, 8, S_RW2B) THEN "PanaRAW"
  ELSE IF IsTiff(hd) THEN "TIFF"
  ELSE IF Eq(hd, 0, S_PNG) THEN "PNG"
  ELSE IF Eq(hd, 0, S_PSD) THEN "PSD"
  ELSE IF Eq(hd, 0, S_BM) THEN "BMP"
  ELSE IF Eq(hd, 0, S_RIFF) /\ Eq(hd, 8, S_WEBP) THEN "WebP"
  ELSE IF Eq(hd, 0, S_XMP) THEN "XMP"
  ELSE IF Eq(hd, 0, S_GIF8) /\ hd[5] \in {55, 57} /\ hd[6] = 97 THEN "GIF"
  ELSE IF hd[1] = 80 /\ hd[2] \in {51, 54} /\ hd[3] \in {10, 13, 9, 32} THEN "PPM"
  ELSE "Unknown"

--------------------------------------------------------------------------------
(* The declarative table: signature per type, and the specificity order *)
Types == {"JPEG", "CRW", "CR2", "CR3", "AVIF", "HEIF", "PanaRAW", "TIFF", "PNG", "PSD", "BMP", "WebP", "XMP", "GIF", "PPM", "Unknown"}

FtypBox(hd) == Eq(hd, 4, S_ftyp) /\ hd[1] = 0 /\ hd[2] = 0
Compat(hd, b) == Eq(hd, 16, b) \/ Eq(hd, 20, b)          \* the two compatible brands visible in 24 bytes

Sig(F, hd) ==
  CASE F = "JPEG"    -> Eq(hd, 0, S_SOI) \/ Eq(hd, 0, S_JP2)
    [] F = "CRW"     -> Eq(hd, 0, S_II) /\ Eq(hd, 6, S_HEAPCCDR)
    [] F = "CR2"     -> (Eq(hd, 0, S_TIFFLE) \/ Eq(hd, 0, S_TIFFBE)) /\ Eq(hd, 8, S_CR2)
    [] F = "CR3"     -> FtypBox(hd) /\ Eq(hd, 8, S_crx)
    [] F = "AVIF"    -> FtypBox(hd) /\ (Eq(hd, 8, S_avif) \/ (Eq(hd, 8, S_mif1) /\ Eq(hd, 20, S_avif)))
    [] F = "HEIF"    -> FtypBox(hd) /\ (\/ Eq(hd, 8, S_heic) \/ Eq(hd, 8, S_heix)
                                        \/ (Eq(hd, 8, S_mif1) /\ Compat(hd, S_heic))
                                        \/ (Eq(hd, 8, S_msf1) /\ Eq(hd, 20, S_hevc)))
    [] F = "PanaRAW" -> Eq(hd, 0, S_RW2A) /\ Eq(hd, 8, S_RW2B)
    [] F = "TIFF"    -> Eq(hd, 0, S_TIFFLE) \/ Eq(hd, 0, S_TIFFBE)
    [] F = "PNG"     -> Eq(hd, 0, S_PNG)                       \* the full 8-byte PNG signature
    [] F = "PSD"     -> Eq(hd, 0, S_PSD)
    [] F = "BMP"     -> Eq(hd, 0, S_BM)
    [] F = "WebP"    -> Eq(hd, 0, S_RIFF) /\ Eq(hd, 8, S_WEBP)
    [] F = "XMP"     -> Eq(hd, 0, S_XMP)
    [] F = "GIF"     -> Eq(hd, 0, S_GIF8) /\ hd[5] \in {55, 57} /\ hd[6] = 97
    [] F = "PPM"     -> hd[1] = 80 /\ hd[2] \in {51, 54} /\ hd[3] \in {10, 13, 9, 32}
    [] OTHER         -> FALSE

\* more specific first
Prio == <<"JPEG", "CRW", "CR2", "CR3", "AVIF", "HEIF", "PanaRAW", "TIFF", "PNG", "PSD", "BMP", "WebP", "XMP", "GIF", "PPM">>

Matching(hd) == {i \in 1..Len(Prio) : Sig(Prio[i], hd)}
MostSpecific(hd) == IF Matching(hd) = {} THEN "Unknown"
                    ELSE Prio[CHOOSE i \in Matching(hd) : \A j \in Matching(hd) : i <= j]

--------------------------------------------------------------------------------
Init == st = "canon" /\ \E c \in 1..N : h = Canon[c] /\ src = <<c>>

\* environment: one byte changed to any value
Perturb == /\ Mode = "perturb" /\ st = "canon"
           /\ \E p \in 1..24, v \in 0..255 : h' = [h EXCEPT ![p] = v] /\ src' = src \o <<p, v>>
           /\ st' = "done"
\* environment: a byte range replaced by the bytes of another canonical header (hybrid headers expose ordering mistakes)
Cross   == /\ Mode = "cross" /\ st = "canon"
           /\ \E d \in 1..N, lo \in 1..24, hi \in 1..24 :
                 /\ lo <= hi
                 /\ h' = [k \in 1..24 |-> IF k >= lo /\ k <= hi THEN Canon[d][k] ELSE h[k]]
                 /\ src' = src \o <<d, lo, hi>>
           /\ st' = "done"
Next == Perturb \/ Cross \/ (st = "done" /\ UNCHANGED <<h, src, st>>)
Spec == Init /\ [][Next]_<<h, src, st>>

Total    == Decide(h) \in Types
Sound    == Decide(h) # "Unknown" => Sig(Decide(h), h)
Complete == Decide(h) = MostSpecific(h)
\* the canonical headers themselves are classified as their format (sanity of the table)
\* Emission: one record per canonical header, holding the specified type of every derived header
\* (batching keeps the emission cost out of the state exploration).
CrossOf(hd, d, lo, hi) == [k \in 1..24 |-> IF k >= lo /\ k <= hi THEN Canon[d][k] ELSE hd[k]]
Emit == (OutFile # "" /\ st = "canon") =>
          CSVWrite("%1$s", <<ToJson(
            IF Mode = "perturb"
              THEN [mode |-> "perturb", c |-> src[1], h |-> h,
                    res |-> [p \in 1..24 |-> [v1 \in 1..256 |-> Decide([h EXCEPT ![p] = v1 - 1])]]]
              ELSE [mode |-> "cross", c |-> src[1], h |-> h, canon |-> Canon,
                    res |-> [d \in 1..N |-> [lo \in 1..24 |-> [hi \in 1..24 |->
                               IF lo <= hi THEN Decide(CrossOf(h, d, lo, hi)) ELSE "-"]]]])>>, OutFile)
=============================================================================
