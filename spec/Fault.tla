-------------------------------- MODULE Fault --------------------------------
(* Input grammar with malformation operators + fault environment (properties   *)
(* C01 totality / no out-of-range access, C02 progress, C14 allocation bound). *)
(*                                                                             *)
(* Abstract file: a sequence of FIELDS, each [kind, size]; kinds are the roles *)
(* a decoder gives to file bytes:                                              *)
(*   magic  - signature bytes compared with constants                          *)
(*   size   - length of an enclosing structure (box / segment / chunk)         *)
(*   count  - number of following records (IFD entries, items, brands)         *)
(*   ucount - unit count of a value (value size = count * unit)                *)
(*   offset - position of something else in the file                           *)
(*   type   - an enumerated code selecting a parser                            *)
(*   data   - payload a parser indexes at fixed positions                      *)
(* A malformation PLAN rewrites up to MaxMal fields with a value CLASS of the  *)
(* field's kind (the classes are the boundaries decoders compare against).     *)
(* The environment truncates the stream at `cut` (relative to a field: before  *)
(* it, inside it at +1, at its last byte, or not at all) and then reports EOF  *)
(* or a non-EOF error.                                                         *)
(*                                                                             *)
(* Reader design ("guarded"): every field is obtained by a request that either *)
(* yields all its bytes or fails; a failed request ends the call with an error *)
(* and nothing is indexed; a value taken from the file is used for navigation  *)
(* or allocation only after comparison with what the stream can still hold.    *)
(* The deviations known from the code are named actions enabled by Mode:       *)
(*   "unchecked" - the buffer of a failed request is indexed (readUint16)      *)
(*   "trusting"  - a count/size from the file drives a loop or an allocation   *)
(*                 without comparison (readInfe i += size, make([]byte, Size)) *)
EXTENDS Integers, Sequences, FiniteSets, TLC, Json, CSV

CONSTANTS Shape,     \* sequence of field kinds of the base file, e.g. <<"magic","size","count","type","ucount","offset","data">>
          MaxMal,    \* number of malformation operators applied (0..MaxMal)
          Mode,      \* "guarded" | "unchecked" | "trusting"
          OutFile

Kinds == {"magic", "size", "count", "ucount", "offset", "type", "data"}
\* value classes per kind (what the concretiser writes is fixed per class, see harness/props/c01.go)
Classes(k) == CASE k = "magic"  -> {"flip"}
                [] k = "size"   -> {"zero", "one", "hdrMinus1", "exactMinus1", "exactPlus1", "beyondParent", "max16m1", "max16", "max31", "max32",
                                    "wrap32",                   \* position + size = an EARLIER structure boundary modulo 2^32
                                    "shrunk1", "shrunk3"}       \* the frame (and every frame around it) is consistently 1 / 3 bytes shorter: what lies inside ends early
                [] k = "count"  -> {"zero", "exactPlus1", "c85", "c86", "c128", "c129", "max16"}
                [] k = "ucount" -> {"zero", "one", "five", "c1025", "c4097", "huge30", "max32"}
                [] k = "offset" -> {"zero", "backward", "self", "lastByte", "eof", "eofPlus1", "max31", "max32"}
                [] k = "type"   -> {"t0", "t6", "t13", "t255"}
                [] OTHER        -> {"short", "garbage", "zeroden", "allFF"}
\* is the class consistent with what the stream can hold?  (the guard the design applies)
InRange(k, c) == c \in {"exactMinus1", "one", "five", "zero", "backward", "self", "lastByte", "t6", "garbage", "flip", "short", "zeroden", "allFF", "t0", "t13", "t255",
                        "shrunk1", "shrunk3"}

VARIABLES plan,      \* sequence of [at, class]: field index and class written there
          cutAt, cutHow, fault,   \* truncation: field index (0 = none), how: "before" | "plus1" | "lastByte"
          i,         \* field the reader is at
          acc,       \* set of [field, idx, viewLen]: indexes used into request results
          loops,     \* iterations of file-driven loops without consumption
          alloc,     \* ghost: units allocated from file-declared sizes beyond what the stream holds
          pc

vars == <<plan, cutAt, cutHow, fault, i, acc, loops, alloc, pc>>
N == Len(Shape)

PlanAt(f) == {k \in 1..Len(plan) : plan[k].at = f}
ClassAt(f) == IF PlanAt(f) = {} THEN "ok" ELSE plan[CHOOSE k \in PlanAt(f) : TRUE].class

Init == /\ plan \in UNION {[1..m -> {[at |-> f, class |-> c] : f \in 1..N, c \in UNION {Classes(k) : k \in Kinds}}] : m \in 0..MaxMal}
        /\ \A k \in 1..Len(plan) : plan[k].class \in Classes(Shape[plan[k].at])
        /\ \A a, b \in 1..Len(plan) : a < b => plan[a].at < plan[b].at            \* one operator per field, ordered
        /\ cutAt \in 0..N /\ cutHow \in {"before", "plus1", "lastByte"} /\ (cutAt = 0 => cutHow = "before")
        /\ fault \in {"EOF", "ERR"}
        /\ i = 1 /\ acc = {} /\ loops = 0 /\ alloc = 0 /\ pc = "read"

\* a consistently shortened frame ends inside the field that follows its size field: to the reader the end of
\* a frame is the end of the stream
FrameCut(f) == f > 1 /\ ClassAt(f - 1) \in {"shrunk1", "shrunk3"}
\* does the request for field f deliver all of its bytes?
Delivered(f) == (cutAt = 0 \/ f < cutAt) /\ ~FrameCut(f)
ViewLen(f)   == IF Delivered(f) THEN 2 ELSE IF FrameCut(f) \/ (f = cutAt /\ cutHow # "before") THEN 1 ELSE 0   \* abstract: 2 = whole field, 1 = part, 0 = nothing

\* the guarded design: one step per field
ReadField ==
  /\ pc = "read" /\ i <= N
  /\ IF ~Delivered(i)
       THEN IF Mode = "unchecked"
              THEN /\ acc' = acc \cup {[field |-> i, idx |-> 1, viewLen |-> ViewLen(i)]}      \* indexes buf[1] of a failed request
                   /\ pc' = "err" /\ UNCHANGED <<i, loops, alloc>>
              ELSE /\ pc' = "err" /\ UNCHANGED <<i, acc, loops, alloc>>
       ELSE LET k == Shape[i] c == ClassAt(i) IN
            /\ acc' = acc \cup {[field |-> i, idx |-> 1, viewLen |-> 2]}
            /\ IF c = "ok" \/ InRange(k, c)
                 THEN /\ i' = i + 1 /\ pc' = "read" /\ UNCHANGED <<loops, alloc>>
                 ELSE IF Mode = "trusting"
                        THEN /\ loops' = IF k \in {"size", "count"} /\ c \in {"zero", "wrap32"} THEN loops + 1 ELSE loops
                             /\ alloc' = IF k \in {"size", "count", "ucount"} /\ c \in {"max31", "max32", "huge30", "max16", "max16m1"} THEN alloc + 1 ELSE alloc
                             /\ i' = i + 1 /\ pc' = "read"
                        ELSE /\ pc' = "reject" /\ UNCHANGED <<i, loops, alloc>>     \* out-of-range value: error or skip, never used
  /\ UNCHANGED <<plan, cutAt, cutHow, fault>>
\* zero-size structures are in range for the guard but must still make progress: the design consumes the header it has read
Done == /\ pc = "read" /\ i > N /\ pc' = "done" /\ UNCHANGED <<plan, cutAt, cutHow, fault, i, acc, loops, alloc>>
Stutter == pc \in {"done", "err", "reject"} /\ UNCHANGED vars
Next == ReadField \/ Done \/ Stutter
Spec == Init /\ [][Next]_vars /\ WF_vars(ReadField \/ Done)

TypeOK   == i \in 1..(N+1) /\ pc \in {"read", "done", "err", "reject"}
\* C01: every index is inside the view the request returned
NoOOB    == \A a \in acc : a.idx <= a.viewLen
\* C02: no loop iteration without consumption
NoStall  == loops = 0
\* C14: nothing is allocated from a declared size the stream cannot hold
NoBlowup == alloc = 0
\* C01: the call returns (value and/or error)
Returns  == <>(pc \in {"done", "err", "reject"})

Emit == (pc \in {"done", "err", "reject"} /\ OutFile # "") =>
          CSVWrite("%1$s", <<ToJson([plan |-> plan, cutAt |-> cutAt, cutHow |-> cutHow, fault |-> fault, res |-> pc])>>, OutFile)
=============================================================================
