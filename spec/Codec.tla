-------------------------------- MODULE Codec --------------------------------
(* Value-type codecs (property C16): finite-domain and structural codecs are   *)
(* specified exactly and enumerated completely; text/binary decoders are total.*)
(*                                                                             *)
(* Four generators, selected by `part`:                                        *)
(*  "bias"   ExposureBias, all 2^16 encodings: Pack/Unpack (numerator in the   *)
(*           high byte, two's complement; denominator in the low byte,         *)
(*           unsigned) and the text form sign n "/" d ("0/0" for zero).        *)
(*           RoundTrip: Pack(Unpack(v)) = v and Unpack is injective, so the    *)
(*           text form determines the value.                                   *)
(*  "msgp"   MessagePack framing of 16-bit integer-backed types: the shortest  *)
(*           encoding class by magnitude (msgpack spec) and SizeHint: it never *)
(*           exceeds 1 + 2 bytes (what Msgsize promises).                      *)
(*  "str"    every string of length 0..MaxLen over the alphabet of characters  *)
(*           the text parsers branch on: input of the totality check.          *)
(*  "uuid"   UUID text forms x well-formed / malformation classes.             *)
(* TLC emits the expected text / length / plan; the harness runs the real      *)
(* Marshal*, Unmarshal*, Msgsize, ParseString on all of it.                    *)
EXTENDS Integers, Sequences, TLC, Json, CSV

CONSTANTS Parts, Alphabet, MaxLen, OutFile

VARIABLES part, blk, str, plan, pc
vars == <<part, blk, str, plan, pc>>

----------------------------------------------------------------------------
(* ExposureBias *)
Num(v) == IF v >= 0 THEN v \div 256 ELSE -((-v + 255) \div 256)        \* arithmetic shift right by 8
Den(v) == v % 256                                                        \* low byte, unsigned
Pack(n, d) == LET x == n * 256 + d IN IF x > 32767 THEN x - 65536 ELSE IF x < -32768 THEN x + 65536 ELSE x
BiasText(v) == IF v = 0 THEN "0/0"
               ELSE (IF v > 0 THEN "+" ELSE "") \o ToString(Num(v)) \o "/" \o ToString(Den(v))
BlockSize == 2048
BiasBlock(b) == [i \in 1..BlockSize |-> BiasText(-32768 + (b - 1) * BlockSize + i - 1)]
BiasRoundTrip(b) == \A i \in 1..BlockSize : LET v == -32768 + (b - 1) * BlockSize + i - 1 IN
                       /\ Num(v) \in -128..127 /\ Den(v) \in 0..255
                       /\ Pack(Num(v), Den(v)) = v
                       /\ (v < 0 <=> Num(v) < 0)                         \* the sign of the text is the sign of the value

----------------------------------------------------------------------------
(* MessagePack shortest encodings of integers (msgpack spec "int format family") *)
UintLen(v) == IF v < 128 THEN 1 ELSE IF v < 256 THEN 2 ELSE IF v < 65536 THEN 3 ELSE 5
IntLen(v)  == IF v >= 0 THEN UintLen(v) ELSE IF v >= -32 THEN 1 ELSE IF v >= -128 THEN 2 ELSE IF v >= -32768 THEN 3 ELSE 5
SizeHint16 == 3
MsgpBlockOK(b) == \A i \in 1..BlockSize : LET u == (b - 1) * BlockSize + i - 1   \* unsigned view
                                               s == u - 32768                        \* signed view
                                           IN UintLen(u) <= SizeHint16 /\ IntLen(s) <= SizeHint16

----------------------------------------------------------------------------
(* strings over the parser alphabet *)
RECURSIVE Join(_)
Join(s) == IF s = <<>> THEN "" ELSE Head(s) \o Join(Tail(s))

(* UUID forms and malformations *)
Forms == {"canonical", "hashlike", "braced", "bracedhash", "urn", "urnhash"}
Muts  == {"none", "upper", "dropchar", "extrachar", "badhex", "dashmoved", "prefixtypo", "bracemissing", "empty"}
UuidValid(m) == m \in {"none", "upper"}

Init == /\ part \in Parts /\ pc = "gen"
        /\ blk \in (IF part \in {"bias", "msgp"} THEN 1..32 ELSE {0})
        /\ str \in (IF part = "str" THEN UNION {[1..k -> Alphabet] : k \in 0..MaxLen} ELSE {<<>>})
        /\ plan \in (IF part = "uuid" THEN {[form |-> f, mut |-> m] : f \in Forms, m \in Muts} ELSE {[form |-> "-", mut |-> "-"]})

Done == pc = "gen" /\ pc' = "done" /\ UNCHANGED <<part, blk, str, plan>>
Stutter == pc = "done" /\ UNCHANGED vars
Next == Done \/ Stutter
Spec == Init /\ [][Next]_vars /\ WF_vars(Done)

RoundTrip == part = "bias" => BiasRoundTrip(blk)
SizeHint  == part = "msgp" => MsgpBlockOK(blk)
Total     == <>(pc = "done")

Emit == (pc = "done" /\ OutFile # "") =>
          CSVWrite("%1$s", <<ToJson(
             CASE part = "bias" -> [part |-> part, lo |-> -32768 + (blk - 1) * BlockSize, texts |-> BiasBlock(blk)]
               [] part = "msgp" -> [part |-> part, lo |-> (blk - 1) * BlockSize, n |-> BlockSize, hint |-> SizeHint16]
               [] part = "str"  -> [part |-> part, s |-> Join(str)]
               [] OTHER         -> [part |-> part, form |-> plan.form, mut |-> plan.mut, valid |-> IF UuidValid(plan.mut) THEN 1 ELSE 0])>>, OutFile)
=============================================================================
