------------------------------ MODULE TiffScan ------------------------------
(* Design model of tiff.ScanTiffHeader (property C12).                       *)
(* Init picks every prefix over the signature alphabet up to MaxPre symbols  *)
(* and a header kind; the scanner then runs with the grain of the code: one  *)
(* action per loop iteration (peek window, test both signatures, advance 1   *)
(* or 2).  Terminal states emit one case record for replay on the real code. *)
EXTENDS TiffScanOps, TLC, Json, CSV

CONSTANTS MaxPre,    \* longest prefix enumerated
          Window,    \* bytes peeked per iteration (32 in the code)
          TailLen,   \* bytes after the 4 signature bytes of the planted header (>= Window-4)
          OutFile    \* emission file ("" = no emission)

VARIABLES pre, hdr, ifd, phase, pos, found, order

vars == <<pre, hdr, ifd, phase, pos, found, order>>

Fill(n) == [i \in 1..n |-> "X"]

\* the four bytes stored after the signature (the first-directory offset) are data, not part of the signature:
\* any value, 0, 8 in either byte order, or bytes that themselves look like the start of a signature
IfdTails == {<<"X", "X", "X", "X">>, <<"Z", "Z", "Z", "Z">>, <<"X", "Z", "Z", "Z">>, <<"Z", "Z", "Z", "X">>, <<"I", "I", "S", "X">>}

Stream == pre \o (CASE hdr = "LE" -> LE \o ifd [] hdr = "BE" -> BE \o ifd [] OTHER -> <<>>) \o Fill(TailLen)

Prefixes == UNION {[1..n -> Sym] : n \in 0..MaxPre}

Init == /\ pre \in Prefixes
        /\ hdr \in {"LE", "BE", "NONE"}
        /\ ifd \in IfdTails /\ (hdr = "NONE" => ifd = <<"X", "X", "X", "X">>)
        /\ phase = "scan" /\ pos = 1 /\ found = 0 /\ order = "NONE"

\* one loop iteration of ScanTiffHeader
Step == /\ phase = "scan"
        /\ IF ~CanPeek(Stream, pos, Window)
             THEN /\ phase' = "noexif" /\ UNCHANGED <<pos, found, order>>           \* Peek(32) fails => ErrNoExif
             ELSE IF SigAt(Stream, pos)
               THEN /\ phase' = "done" /\ found' = pos /\ order' = OrderAt(Stream, pos)
                    /\ UNCHANGED pos                                              \* header found; nothing consumed
               ELSE /\ pos' = pos + Adv(Stream, pos) /\ UNCHANGED <<phase, found, order>>
        /\ UNCHANGED <<pre, hdr, ifd>>

Done == phase \in {"done", "noexif"} /\ UNCHANGED vars

Next == Step \/ Done
Spec == Init /\ [][Next]_vars /\ WF_vars(Step)

TypeOK == /\ phase \in {"scan", "done", "noexif"} /\ pos \in 1..(MaxPre + 8 + TailLen)
          /\ found \in 0..(MaxPre + 8) /\ order \in {"LE", "BE", "NONE"}

\* C12: the reported offset is the first signature, with its byte order; stream left AT the header
Correct     == phase = "done"   => /\ found = FirstSig(Stream, Window) /\ found > 0
                                   /\ order = OrderAt(Stream, found) /\ pos = found
\* no signature (with a full window) => the 'no Exif' outcome, and only then
NoSigNoFind == phase = "noexif" => FirstSig(Stream, Window) = 0
\* the scan never jumps over a signature
NoSkip      == \A j \in 1..(pos-1) : ~(SigAt(Stream, j) /\ CanPeek(Stream, j, Window))
\* every iteration that does not terminate consumes input
Progress    == [][phase = "scan" /\ phase' = "scan" => pos' > pos]_vars
Terminates  == <>(phase \in {"done", "noexif"})

Emit == (phase \in {"done", "noexif"} /\ OutFile # "") =>
          CSVWrite("%1$s", <<ToJson([pre |-> pre, hdr |-> hdr, ifd |-> ifd, off |-> found - 1, bo |-> order])>>, OutFile)
=============================================================================
