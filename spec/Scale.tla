-------------------------------- MODULE Scale --------------------------------
(* Cost of decoding HONEST but large or repetitive input: properties C02 (the  *)
(* bytes requested from the reader are at most a small multiple of the input)  *)
(* and C14 (the memory allocated is a constant plus a small multiple of the    *)
(* input).  Fault.tla covers fields that lie; this module covers files whose   *)
(* every field tells the truth and whose size comes from repetition.           *)
(*                                                                             *)
(* Abstract input: n repetitions of a UNIT of `size` bytes (an IFD entry, a    *)
(* box, an item-info entry, a JPEG segment, a PNG chunk, an XMP property, or   *)
(* one long token).  All quantities are in bytes/1 (sizes are small numbers    *)
(* here; the concretiser scales them, see harness/props/scale.go).             *)
(* Reader design ("linear"): a unit is consumed through a look-ahead window of *)
(* W bytes that is never re-requested; what is allocated for a unit is at most *)
(* a copy of the bytes kept from it.  Named deviations:                        *)
(*   "perUnit"  a fixed-size object (error value, log event, map entry) is     *)
(*              built for every unit, however small the unit is                *)
(*   "regrow"   a token longer than the window is served by ever larger        *)
(*              buffers, each a fresh allocation and a fresh request           *)
(*   "rescan"   the window is re-requested from the start of the unit after    *)
(*              every step                                                     *)
EXTENDS Integers, Sequences, TLC, Json, CSV

CONSTANTS Units,     \* set of [fam, unit, size]
          Counts,    \* repetition counts
          W,         \* look-ahead window
          K,         \* size of the per-unit object of the "perUnit" deviation
          A0, R0, C, \* the bounds: alloc <= A0 + C*consumed, req <= R0 + C*consumed
          MaxBytes, Mode, OutFile

VARIABLES u, n, k, consumed, alloc, req, pc
vars == <<u, n, k, consumed, alloc, req, pc>>

Min(a, b) == IF a < b THEN a ELSE b
\* number of windows needed for one unit
Wins(s) == (s + W - 1) \div W
\* sum_{j=1..m} j*W = W*m*(m+1)/2 : cost of serving a token by buffers of W, 2W, 3W ...
Tri(m) == (W * m * (m + 1)) \div 2

Init == /\ u \in Units /\ n \in Counts /\ n <= MaxBytes \div u.size
        /\ k = 0 /\ consumed = 0 /\ alloc = 0 /\ req = 0 /\ pc = "run"

\* long runs are stepped B units at a time (the state graph stays small; the sums are the same)
B == IF n > 4096 THEN 256 ELSE 1
Unit == /\ pc = "run" /\ k < n
        /\ k' = k + B /\ consumed' = consumed + B * u.size
        /\ alloc' = alloc + B * (CASE Mode = "perUnit" -> K
                                   [] Mode = "regrow"  -> Tri(Wins(u.size))
                                   [] OTHER            -> Min(u.size, W))      \* design: at most the kept bytes of one window
        /\ req' = req + B * (CASE Mode = "regrow" -> Tri(Wins(u.size))
                               [] Mode = "rescan" -> Tri(Wins(u.size))
                               [] OTHER           -> u.size)
        /\ UNCHANGED <<u, n, pc>>
Finish == /\ pc = "run" /\ k = n /\ pc' = "done" /\ UNCHANGED <<u, n, k, consumed, alloc, req>>
Stutter == pc = "done" /\ UNCHANGED vars
Next == Unit \/ Finish \/ Stutter
Spec == Init /\ [][Next]_vars /\ WF_vars(Unit \/ Finish)

TypeOK == k \in 0..n /\ pc \in {"run", "done"}
\* C14
AllocBound == alloc <= A0 + C * consumed
\* C02
ReqBound   == req <= R0 + C * consumed
Progress   == [][k' > k \/ pc' = "done" \/ UNCHANGED vars]_vars
Returns    == <>(pc = "done")

Emit == (pc = "done" /\ OutFile # "") =>
          CSVWrite("%1$s", <<ToJson([fam |-> u.fam, unit |-> u.unit, size |-> u.size, n |-> n])>>, OutFile)
=============================================================================
