------------------------------- MODULE MC_Scale -------------------------------
(* Units of Scale.tla.  Sizes are in units of 16 bytes (a size of 1 = a 12..16 *)
(* byte record, 4096 = a 64 KiB token, 65536 = a 1 MiB token).                  *)
EXTENDS Scale
U(f, un, s) == [fam |-> f, unit |-> un, size |-> s]
AllUnits == {
  \* one long token each (n = 1): sizes 4 KiB .. 1 MiB
  U("xmp", "elemValue", 256), U("xmp", "elemValue", 4096), U("xmp", "elemValue", 16384), U("xmp", "elemValue", 65536),
  U("xmp", "attrValue", 4096), U("xmp", "attrValue", 65536), U("xmp", "ws", 16384), U("xmp", "junk", 65536), U("xmp", "tagName", 4096),
  U("tiff", "asciiValue", 4096), U("tiff", "asciiValue", 65536), U("bmff", "bigFree", 65536), U("bmff", "bigCmt", 16384),
  \* small records repeated
  U("xmp", "unknownProp", 3), U("xmp", "li", 2), U("xmp", "knownProp", 3),
  U("bmff", "infeV0", 1), U("bmff", "infeV2", 2), U("bmff", "topFree", 1), U("bmff", "moovKid", 1), U("bmff", "ilocItem", 1),
  U("tiff", "entry", 1), U("tiff", "ifdChain", 2), U("tiff", "oolValue", 2),
  U("tiff", "subIfd", 2),        \* one SubIFDs tag with n directory pointers, each to a small directory
  U("tiff", "longArray", 1),     \* multi-valued fields the reader fetches: n LONG strip offsets, n SHORT ISO ratings
  U("tiff", "byteArray", 1),     \* n bytes of UNDEFINED data (maker note, user comment)
  \* repetition of a structure whose COUNT overstates (the two mechanisms of Fault and Scale together): n iloc / iinf boxes that
  \* each declare 65535 items and hold none; n CMT1 boxes whose 84 text entries each declare a 4097-byte value
  U("bmff", "ilocMax", 1), U("bmff", "iinfMax", 1), U("bmff", "cmtAscii4097", 330),
  U("bmff", "cmtTiny", 2),                 \* n smallest possible CMT1 boxes (a TIFF header and an empty directory): one Exif block each
  U("bmff", "preview", 16384), U("bmff", "preview", 393216),     \* a truthful preview image of 256 KiB / 6 MiB
  U("jpeg", "app", 1), U("jpeg", "exifSeg", 8), U("jpeg", "com64k", 4096),
  U("png", "chunk", 1) }
\* a long token is not repeated; a small record is repeated up to the byte budget
Repeats == {1, 64, 4096, 65536}
=============================================================================
