-------------------------------- MODULE PHash --------------------------------
(* Perceptual hash pipeline outside the floating-point kernels (property C19). *)
(*                                                                             *)
(*  "guard"  the size guard as a total decision: a hash is computed iff the    *)
(*           image is not nil and is exactly Req x Req (64 or 256), whatever   *)
(*           its type and wherever its rectangle starts; everything else is    *)
(*           rejected with an error.  Deviation "and": the guard of the pinned *)
(*           tree, `X # Y /\ X # Req`, lets 32x32, 64x32, 128x128 through.     *)
(*  "select" the threshold: quick-select (transcribed step by step from        *)
(*           quickSelectMedian: pivot = low/2 + hi/2, Lomuto partition, narrow *)
(*           to the side holding k = n/2) followed by thr = (s[k-1] + s[k])/2, *)
(*           and the bit assembly: bit i (most significant first) is set iff   *)
(*           c[i] > thr.  Checked on every sequence of length 4, 6, 8 over     *)
(*           {0..3} (ties included): s[k] is the upper median, thr <= upper    *)
(*           median, every coefficient above the upper median has its bit set, *)
(*           no coefficient below thr has, at most half of the bits are set.   *)
(*           Values are doubled (thr2 = 2*thr) to stay in the integers.        *)
(*  "dist"   the distance is the Hamming distance: popcount of the xor, over   *)
(*           pairs of one-bit patterns placed at word/bit boundary offsets,    *)
(*           a pattern with itself, and a pattern with its complement (the     *)
(*           maximum, 256 / 64).                                               *)
EXTENDS Integers, Sequences, FiniteSets, TLC, Json, CSV

CONSTANTS Parts, Sizes, Lens, Vals, Mode, OutFile

VARIABLES part, g, s, c, low, hi, k, i, st, pv, pc, d
vars == <<part, g, s, c, low, hi, k, i, st, pv, pc, d>>

Req(fn) == IF fn \in {"NewPHash64", "NewPHash64Alt"} THEN 64 ELSE 256
Fns == {"NewPHash64", "NewPHash64Alt", "NewPHash256", "NewPHash256Alt"}
Kinds == {"RGBA", "NRGBA", "Gray", "YCbCr", "nil"}
Accept(x) == IF Mode = "and" THEN ~(x.w # x.h /\ x.w # Req(x.fn))                    \* the deviation (nil has w = h = 0)
             ELSE x.kind # "nil" /\ x.w = Req(x.fn) /\ x.h = Req(x.fn)
Intended(x) == x.kind # "nil" /\ x.w = Req(x.fn) /\ x.h = Req(x.fn)

Swap(q, a, b) == [q EXCEPT ![a] = q[b], ![b] = q[a]]
NoG == [fn |-> "-", kind |-> "-", w |-> 0, h |-> 0, org |-> 0]
NoD == [w1 |-> 0, b1 |-> 0, w2 |-> 0, b2 |-> 0, rel |-> "-"]

Init == /\ part \in Parts
        /\ g \in (IF part = "guard" THEN {[fn |-> f, kind |-> kd, w |-> w, h |-> h, org |-> o] :
                                              f \in Fns, kd \in Kinds, w \in Sizes, h \in Sizes, o \in {0, 1}} ELSE {NoG})
        /\ (g.kind = "nil" => g.w = 0 /\ g.h = 0 /\ g.org = 0)
        /\ c \in (IF part = "select" THEN UNION {[1..n -> Vals] : n \in Lens} ELSE {<<>>})
        /\ s = c /\ low = 1 /\ hi = Len(c) /\ k = Len(c) \div 2 + 1 /\ i = 1 /\ st = 1 /\ pv = 0
        /\ d \in (IF part = "dist" THEN {[w1 |-> a, b1 |-> b, w2 |-> x, b2 |-> y, rel |-> z] : a \in 0..3, b \in {0, 1, 31, 32, 62, 63}, x \in 0..3, y \in {0, 1, 31, 32, 62, 63}, z \in {"bits", "same", "complement"}} ELSE {NoD})
        /\ pc = IF part = "select" THEN "loop" ELSE "done"

\* quickSelectMedian(sequence, 0, l-1, l/2), 1-based here
Loop == /\ pc = "loop"
        /\ IF low < hi
             THEN LET p == ((low - 1) \div 2 + (hi - 1) \div 2) + 1 IN
                  /\ pv' = s[p] /\ s' = Swap(s, p, hi) /\ st' = low /\ i' = low /\ pc' = "part"
             ELSE /\ pc' = "done" /\ UNCHANGED <<pv, s, st, i>>
        /\ UNCHANGED <<part, g, c, low, hi, k, d>>
Part == /\ pc = "part"
        /\ IF i < hi
             THEN /\ IF s[i] < pv THEN s' = Swap(s, st, i) /\ st' = st + 1 ELSE UNCHANGED <<s, st>>
                  /\ i' = i + 1 /\ pc' = "part" /\ UNCHANGED <<low, hi>>
             ELSE /\ s' = Swap(s, hi, st)
                  /\ IF k <= st THEN hi' = st /\ low' = low ELSE low' = st + 1 /\ hi' = hi
                  /\ pc' = "loop" /\ UNCHANGED <<st, i>>
        /\ UNCHANGED <<part, g, c, k, pv, d>>
Stutter == pc = "done" /\ UNCHANGED vars
Next == Loop \/ Part \/ Stutter
Spec == Init /\ [][Next]_vars /\ WF_vars(Loop \/ Part)

\* order statistics of the ORIGINAL coefficients, independent of the algorithm
CountLess(x)  == Cardinality({j \in 1..Len(c) : c[j] < x})
CountLeq(x)   == Cardinality({j \in 1..Len(c) : c[j] <= x})
UpperMedian   == CHOOSE x \in Vals : CountLess(x) < k /\ CountLeq(x) >= k            \* k-th smallest (k = n/2 + 1)
Thr2          == s[k-1] + s[k]                                                         \* twice the threshold
Bit(j)        == IF 2 * c[j] > Thr2 THEN 1 ELSE 0
RECURSIVE HashVal(_)
HashVal(j)    == IF j > Len(c) THEN 0 ELSE Bit(j) * (2 ^ (Len(c) - j)) + HashVal(j + 1)   \* most significant bit first

\* a = one bit at (w1, b1); b = one bit at (w2, b2) | a itself | the complement of a.  Hamming distance of a and b:
Dist(x) == CASE x.rel = "same" -> 0 [] x.rel = "complement" -> 256
             [] OTHER -> IF x.w1 = x.w2 /\ x.b1 = x.b2 THEN 0 ELSE 2
DistOK    == part = "dist" => Dist(d) \in 0..256 /\ (Dist(d) = 0 <=> (d.rel = "same" \/ (d.rel = "bits" /\ d.w1 = d.w2 /\ d.b1 = d.b2)))
GuardOK   == part = "guard" => (Accept(g) <=> Intended(g))
SelectOK  == (part = "select" /\ pc = "done") => s[k] = UpperMedian
ThrLeqUM  == (part = "select" /\ pc = "done") => Thr2 <= 2 * UpperMedian
UpperSet  == (part = "select" /\ pc = "done") => \A j \in 1..Len(c) : c[j] > UpperMedian => Bit(j) = 1
AtMostHalf == (part = "select" /\ pc = "done") => Cardinality({j \in 1..Len(c) : Bit(j) = 1}) <= Len(c) \div 2
Perm      == (part = "select") => \A x \in Vals : Cardinality({j \in 1..Len(s) : s[j] = x}) = Cardinality({j \in 1..Len(c) : c[j] = x})
Terminates == <>(pc = "done")

Emit == (pc = "done" /\ OutFile # "") =>
          CSVWrite("%1$s", <<ToJson(
            CASE part = "guard"  -> [part |-> part, g |-> g, accept |-> IF Intended(g) THEN 1 ELSE 0]
              [] part = "select" -> [part |-> part, c |-> c, thr2 |-> Thr2, hash |-> HashVal(1), um |-> UpperMedian]
              [] OTHER           -> [part |-> part, d |-> d, dist |-> Dist(d)])>>, OutFile)
=============================================================================
