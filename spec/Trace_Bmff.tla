----------------------------- MODULE Trace_Bmff -----------------------------
(* Trace acceptor for isobmff.Reader (OPEN traces: no knowledge of the input; *)
(* the box stack is rebuilt from what the hooks report).  Applicable to any    *)
(* bytes: generated trees, size lies, repository samples, mutated files.       *)
(* Events (package bmff):                                                      *)
(*   open  a = <<offset, size, hdr, depth, type>>  readBox / readInnerBox /    *)
(*                                                 artificial inner boxes      *)
(*   close a = <<depth, remain>>                   box.close (entry)           *)
(*   adv   a = <<n, readerOffset>>                 Reader.discard              *)
(*   read  a = <<n, len(p), remain>>               box.Read                    *)
(*   cb>   a = <<kind, remain, ...>>   cb<  a = <<kind, remain>>               *)
(*   ret   a = <<errclass, readerOffset>>          ReadFTYP / ReadMetadata     *)
(* and, written by the harness, start: tops = expected positions after each    *)
(* top-level call (<<>> when unknown).                                         *)
(* Checked at EVERY event: Contain (the position never passes the declared end *)
(* of any open box), RemainOK at the callbacks (the box's own bookkeeping      *)
(* equals declared end - position), AfterTop at every successful return.       *)
EXTENDS Integers, Sequences, TLC, Json

CONSTANTS TraceFile
Trace == ndJsonDeserialize(TraceFile)

VARIABLES l, off, stack, tops, nret, bad
tvars == <<l, off, stack, tops, nret, bad>>

Ev(e) == l <= Len(Trace) /\ Trace[l].e = e /\ l' = l + 1
A(k)  == Trace[l].a[k]

\* TLC integers are 32 bit: the harness clamps sizes and remainders of 2^29 and more to Big (far beyond any input length)
Big == 536870912

TInit == l = 1 /\ off = 0 /\ stack = <<>> /\ tops = <<>> /\ nret = 0 /\ bad = "-"

TStart == /\ Ev("start") /\ off' = 0 /\ stack' = <<>> /\ tops' = Trace[l].tops /\ nret' = 0 /\ bad' = "-"

\* frames that a new box at depth d implicitly leaves behind
Keep(d) == SelectSeq(stack, LAMBDA f : f.depth < d)
TOpen == /\ Ev("open")
         /\ stack' = Append(Keep(A(4)), [start |-> off, end |-> off + A(2), depth |-> A(4), typ |-> A(5)])
         /\ UNCHANGED <<off, tops, nret, bad>>
\* box.close(): the box (and anything still open inside it) is left; a repeated close of a box already left changes nothing
TClose == /\ Ev("close")
          /\ stack' = Keep(A(1)) /\ UNCHANGED <<off, tops, nret, bad>>      \* (after a failed Discard the box's remain is stale: not compared here)
\* what close discards belongs to the enclosing boxes: checked by Contain against the frames that are still open
TAdv  == /\ Ev("adv") /\ A(1) >= 0 /\ off' = off + A(1) /\ UNCHANGED <<stack, tops, nret, bad>>
TRead == /\ Ev("read") /\ A(1) >= 0 /\ off' = off + A(1) /\ UNCHANGED <<stack, tops, nret, bad>>
\* at a hand-off the box's own remain equals what the layout leaves (innermost frame)
TCbIn  == /\ Ev("cb>") /\ Len(stack) > 0
          /\ bad' = IF A(2) >= Big \/ A(2) = stack[Len(stack)].end - off THEN bad ELSE "remain-at-handoff"
          /\ UNCHANGED <<off, stack, tops, nret>>
TCbOut == /\ Ev("cb<") /\ Len(stack) > 0
          /\ bad' = IF A(2) >= Big \/ A(2) = stack[Len(stack)].end - off THEN bad ELSE "remain-after-handoff"
          /\ UNCHANGED <<off, stack, tops, nret>>
\* a top-level call returns: on success the reader stands at the end of the top-level box (and where the generator says)
TRet == /\ Ev("ret")
        /\ nret' = nret + 1
        /\ bad' = IF A(1) = 0 /\ Len(stack) > 0 /\ off # stack[1].end THEN "not-at-next-top-level-box"
                  ELSE IF A(1) = 0 /\ nret + 1 <= Len(tops) /\ off # tops[nret + 1] THEN "position-differs-from-layout"
                  ELSE bad
        /\ stack' = <<>> /\ UNCHANGED <<off, tops>>

TNext == TStart \/ TOpen \/ TClose \/ TAdv \/ TRead \/ TCbIn \/ TCbOut \/ TRet
TSpec == TInit /\ [][TNext]_tvars

\* C11, evaluated in every state of the recorded execution
Contain  == \A f \in 1..Len(stack) : off <= stack[f].end
Nested   == \A f \in 1..(Len(stack) - 1) : stack[f].depth < stack[f+1].depth
NoBad    == bad = "-"
Accepted == TLCGet("stats").diameter - 1 = Len(Trace)
=============================================================================
