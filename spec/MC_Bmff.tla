------------------------------- MODULE MC_Bmff -------------------------------
EXTENDS Bmff
L(w, c) == [who |-> w, cls |-> c]
LiesNone == {L("none", "-")}
LiesAll  == LiesNone \cup {L(w, c) : w \in {"moov", "uuidm", "kid1", "kidLast", "tail1"}, c \in {"minus1", "plus4", "plus100", "zero", "tiny"}}
                     \cup {L("uuidmKid", c) : c \in {"plus4", "plus100"}}
LiesQuick == LiesNone \cup {L(w, c) : w \in {"uuidm", "kidLast", "tail1"}, c \in {"minus1", "plus4", "plus100"}}
                      \cup {L("uuidmKid", "plus100"), L("moov", "minus1")}
=============================================================================
