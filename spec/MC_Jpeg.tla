------------------------------- MODULE MC_Jpeg -------------------------------
(* Model values for Jpeg.tla (records cannot be written in a .cfg file).      *)
EXTENDS Jpeg

S(mk, cls, plen, bo, ifd0) == [mk |-> mk, cls |-> cls, plen |-> plen, bo |-> bo, ifd0 |-> ifd0]

\* one representative per dispatch class of the scanner; payload classes:
\*   jfif | exif | xmp | xmpext | nearexif (prefix differs in one byte) | ff (0xFF bytes) | nested (SOI/EOI inside) | opaque
ShapesQuick == {
  S("APP0", "jfif", 14, "-", 0),
  S("APP1", "exif", 70, "LE", 8),
  S("APP1", "exif", 131, "BE", 16),
  S("APP1", "xmp", 180, "-", 0),
  S("APP1", "xmpext", 120, "-", 0),
  S("APP1", "nearexif", 40, "-", 0),
  S("APP2", "exif", 50, "LE", 8),          \* Exif prefix under the wrong marker: not metadata
  S("APP13", "ff", 33, "-", 0),
  S("COM", "nested", 300, "-", 0),
  S("DRI", "opaque", 2, "-", 0),
  S("DRI", "ff", 2, "-", 0),                \* restart interval containing 0xFF bytes
  S("APP1", "exif", 6006, "LE", 8),         \* payload larger than the scanner's 4 KiB buffer
  S("SOF0", "opaque", 15, "-", 0),
  S("COM", "opaque", 65533, "-", 0) }       \* longest possible segment: length field 0xFFFF

ShapesThorough == ShapesQuick \cup {
  S("APP1", "exif", 6 + 8 + 6, "BE", 8),     \* smallest Exif payload: header + empty IFD
  S("APP1", "xmp", 29 + 1, "-", 0),          \* one-byte packet
  S("APP1", "nearxmp", 60, "-", 0),
  S("APP14", "nested", 66, "-", 0),
  S("SOF2", "opaque", 11, "-", 0),
  S("DHT", "ff", 40, "-", 0),
  S("APP2", "opaque", 65532, "-", 0),        \* length field 0xFFFE
  S("APP1", "xmp", 65533, "-", 0) }          \* longest possible XMP packet
=============================================================================
