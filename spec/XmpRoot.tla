------------------------------- MODULE XmpRoot -------------------------------
(* Search for the root element of an XMP packet (xmpReader.readRootTag):       *)
(* property C13 "bytes before the root element are skipped"; C02 progress.     *)
(*                                                                             *)
(* Abstract input: a sequence of RUNS in front of the packet.  A run is n      *)
(* bytes that contain no '<', followed by one '<' that opens                   *)
(*   "lt"     some other element           (`<a>`)                             *)
(*   "decoy"  a near miss of the root name (`<x:xmpmetb `)                     *)
(*   "pi"     the packet wrapper           (`<?xpacket begin=... ?>`)          *)
(* and the last run ends at the '<' of `<x:xmpmeta`.  The reader keeps a       *)
(* look-ahead buffer of Buf bytes.  One action per step of the code:           *)
(*   Slice    ReadSlice('<') finds a '<' within the next Buf bytes and         *)
(*            consumes up to and including it                                  *)
(*   Full     no '<' within Buf bytes: ReadSlice consumes the whole buffer and *)
(*            reports bufio.ErrBufferFull, which is NOT a failure: the search  *)
(*            goes on (the deviation "fullfails" gives up here)                *)
(*   Cmp      Peek(10) and compare with the root name                          *)
(* Design: the root is found, at its true offset, however long the runs are.   *)
EXTENDS Integers, Sequences, TLC, Json, CSV

CONSTANTS RunLens,    \* lengths of the '<'-free stretches
          Seps,       \* kinds of '<' that are not the root
          MaxRuns, Buf,
          Mode,       \* "design" | "fullfails"
          OutFile

VARIABLES runs, pos, pc, slices, fulls
vars == <<runs, pos, pc, slices, fulls>>

SepLen(s) == CASE s = "lt" -> 3 [] s = "decoy" -> 11 [] s = "pi" -> 54 [] s = "root" -> 0
\* offset of the '<' that ends run i
RECURSIVE LtOff(_)
LtOff(i) == IF i = 1 THEN runs[1].n ELSE LtOff(i-1) + SepLen(runs[i-1].sep) + runs[i].n
RootOff == LtOff(Len(runs))
LtSet == {LtOff(i) : i \in 1..Len(runs)}
\* the first '<' at or after pos (the root's '<' always exists)
NextLt == CHOOSE x \in {y \in LtSet : y >= pos} : \A y \in LtSet : y >= pos => x <= y
IsRootAt(x) == x = RootOff

RunSet == [n : RunLens, sep : Seps]
Init == /\ \E k \in 0..(MaxRuns - 1) : \E s \in [1..k -> RunSet] : \E n \in RunLens :
             runs = s \o <<[n |-> n, sep |-> "root"]>>
        /\ pos = 0 /\ pc = "slice" /\ slices = 0 /\ fulls = 0

Slice == /\ pc = "slice" /\ NextLt - pos + 1 <= Buf
         /\ pos' = NextLt + 1 /\ pc' = "cmp" /\ slices' = slices + 1 /\ UNCHANGED <<runs, fulls>>
Full  == /\ pc = "slice" /\ NextLt - pos + 1 > Buf
         /\ IF Mode = "fullfails"
              THEN pc' = "err" /\ UNCHANGED <<pos, fulls>>
              ELSE pos' = pos + Buf /\ fulls' = fulls + 1 /\ UNCHANGED pc
         /\ slices' = slices + 1 /\ UNCHANGED runs
Cmp   == /\ pc = "cmp"
         /\ pc' = IF IsRootAt(pos - 1) THEN "found" ELSE "slice"
         /\ UNCHANGED <<runs, pos, slices, fulls>>
Stutter == pc \in {"found", "err"} /\ UNCHANGED vars
Next == Slice \/ Full \/ Cmp \/ Stutter
Spec == Init /\ [][Next]_vars /\ WF_vars(Slice \/ Full \/ Cmp)

TypeOK == /\ pc \in {"slice", "cmp", "found", "err"} /\ pos \in 0..(RootOff + 1)
          /\ slices \in Nat /\ fulls \in Nat
\* C13: junk in front of the packet never makes the search fail ...
NoErr == pc # "err"
\* ... and the root found is the real one
FoundRight == pc = "found" => pos = RootOff + 1
\* the '<' of the root is never jumped over
NotPast == pos <= RootOff + 1
\* C02: every ReadSlice consumes at least one byte; the number of calls is bounded by the input
Progress == [][pc = "slice" /\ pc' # "err" => pos' > pos]_vars
CallBound == slices <= Len(runs) + (RootOff \div Buf) + 1
Found == <>(pc = "found")

Emit == (pc = "found" /\ OutFile # "") =>
          CSVWrite("%1$s", <<ToJson([runs |-> runs, root |-> RootOff, slices |-> slices, fulls |-> fulls])>>, OutFile)
=============================================================================
