#!/bin/sh
# Rebuild the harness (driver + worker, one binary) against /repo's CURRENT working tree
# with the verification hooks compiled in, then run one property check.
#   ./check.sh <Cnn> [quick|thorough] [--replay <file>]
set -u
export GOFLAGS=-mod=mod GOPROXY=off GOSUMDB=off GOTOOLCHAIN=local
ROOT="$(cd "$(dirname "$0")" && pwd)"
export VERIF_ROOT="$ROOT"
ID="${1:?property id}"; shift
TIER="${1:-quick}"; [ $# -gt 0 ] && shift
mkdir -p "$ROOT/out/bin"
RACE=""
[ "$ID" = "C05" ] && RACE="-race"
BIN="$ROOT/out/bin/verif$RACE"
cp /repo/go.sum "$ROOT/harness/go.sum" 2>/dev/null
if ! (cd "$ROOT/harness" && go build $RACE -tags verif -o "$BIN" ./cmd/verif) > "$ROOT/out/build.$ID.log" 2>&1; then
  cat "$ROOT/out/build.$ID.log"
  echo "MACHINERY property=$ID: harness/library build failed"
  exit 2
fi
exec "$BIN" check "$ID" --tier "$TIER" "$@"
