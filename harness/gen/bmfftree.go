package gen

import (
	"encoding/binary"
	"math/rand"
)

// BNode is one node of an abstract box tree emitted by the Bmff specification.
type BNode struct {
	Typ   string `json:"typ"`
	Depth int    `json:"depth"`
	Hdr   int    `json:"hdr"`
	Own   int    `json:"own"`
	Start int    `json:"start"`
	Size  int    `json:"size"`
	Decl  int    `json:"decl"`
}

var bmffFourCC = map[string]string{"uuidm": "uuid", "uuidx": "uuid", "uuidp": "uuid", "uuido": "uuid", "unk": "zzzz"}

func tiffBlock(n int, be bool) []byte {
	b := make([]byte, n)
	for i := range b {
		b[i] = 0xEE
	}
	if n < 14 {
		return b
	}
	if be {
		copy(b, "MM\x00\x2a")
		binary.BigEndian.PutUint32(b[4:], 8)
	} else {
		copy(b, "II\x2a\x00")
		binary.LittleEndian.PutUint32(b[4:], 8)
	}
	b[8], b[9] = 0, 0 // empty directory
	b[10], b[11], b[12], b[13] = 0, 0, 0, 0
	return b
}

// BuildBoxTree concretises the nodes (document order; a node's own bytes precede its children).
func BuildBoxTree(nodes []BNode, rng *rand.Rand) []byte {
	var out []byte
	for k, n := range nodes {
		typ := n.Typ
		if t, ok := bmffFourCC[typ]; ok {
			typ = t
		}
		hdr := make([]byte, n.Hdr)
		copy(hdr[4:], typ)
		if n.Hdr == 16 {
			binary.BigEndian.PutUint32(hdr, 1)
			binary.BigEndian.PutUint64(hdr[8:], uint64(int64(n.Decl)))
		} else {
			binary.BigEndian.PutUint32(hdr, uint32(int32(n.Decl)))
		}
		out = append(out, hdr...)
		own := noSig(randBytes(rng, n.Own))
		switch n.Typ {
		case "ftyp":
			copy(own, "crx \x00\x00\x00\x01crx isom")
		case "uuidm":
			copy(own, CR3MetaUUID)
		case "uuidx":
			copy(own, CR3XPacketUUID)
			for i := 16; i < len(own); i++ {
				own[i] = byte('a' + (i+k)%26)
			}
		case "uuidp":
			copy(own, CR3PreviewUUID)
			copy(own[16:], []byte{0, 0, 0, 0, 0, 0, 0, 1})
			prvw := PRVWBox(own[16+8+24:], 1620, 1080)
			copy(own[24:], prvw[:24])
			own[48], own[49] = 0xFF, 0xD8
		case "uuido":
			own[0] ^= 0x55
		case "CNCV":
			copy(own, "CanonCR3_001/00.09.00/00.00.00")
		case "CTBO":
			binary.BigEndian.PutUint32(own, 2)
			for r := 0; r < 2; r++ {
				binary.BigEndian.PutUint32(own[4+20*r:], uint32(r+1))
				binary.BigEndian.PutUint64(own[8+20*r:], uint64(1000*(r+1)))
				binary.BigEndian.PutUint64(own[16+20*r:], uint64(100*(r+1)))
			}
		case "CMT1", "CMT2", "CMT3", "CMT4":
			own = tiffBlock(n.Own, k%2 == 1)
		}
		out = append(out, own...)
	}
	return out
}
