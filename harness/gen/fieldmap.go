package gen

import (
	"bytes"
	"encoding/binary"
)

// Field is one role-bearing field of a generated file (see spec/Fault.tla for the kinds).
type Field struct {
	Off  int    `json:"off"`
	Size int    `json:"size"`
	Kind string `json:"kind"` // magic | size | count | ucount | offset | type | data
	BE   bool   `json:"be"`   // byte order of the integer
	Base int    `json:"base"` // offsets stored in the field are relative to this file position
	Name string `json:"name"`
}

func (f Field) order() binary.ByteOrder {
	if f.BE {
		return binary.BigEndian
	}
	return binary.LittleEndian
}

// Get reads the field's integer value.
func (f Field) Get(d []byte) uint64 {
	if f.Off+f.Size > len(d) {
		return 0
	}
	switch f.Size {
	case 1:
		return uint64(d[f.Off])
	case 2:
		return uint64(f.order().Uint16(d[f.Off:]))
	case 4:
		return uint64(f.order().Uint32(d[f.Off:]))
	case 8:
		return f.order().Uint64(d[f.Off:])
	}
	return 0
}

// Put writes v (masked to the field width) into a copy of d.
func (f Field) Put(d []byte, v uint64) []byte {
	out := append([]byte{}, d...)
	if f.Off+f.Size > len(out) {
		return out
	}
	switch f.Size {
	case 1:
		out[f.Off] = byte(v)
	case 2:
		f.order().PutUint16(out[f.Off:], uint16(v))
	case 4:
		f.order().PutUint32(out[f.Off:], uint32(v))
	case 8:
		f.order().PutUint64(out[f.Off:], v)
	}
	return out
}

// MapTIFF walks a TIFF block the generator wrote (IFD0, Exif and GPS directories) at file position base.
func MapTIFF(d []byte, base int) []Field {
	var fs []Field
	if base+8 > len(d) {
		return nil
	}
	be := d[base] == 'M'
	var bo binary.ByteOrder = binary.LittleEndian
	if be {
		bo = binary.BigEndian
	}
	fs = append(fs, Field{base, 4, "magic", be, base, "tiff.signature"}, Field{base + 4, 4, "offset", be, base, "tiff.ifd0"})
	seen := map[int]bool{}
	var walk func(at int, name string, depth int)
	walk = func(at int, name string, depth int) {
		p := base + at
		if seen[at] || depth > 3 || p+2 > len(d) {
			return
		}
		seen[at] = true
		n := int(bo.Uint16(d[p:]))
		fs = append(fs, Field{p, 2, "count", be, base, name + ".count"})
		if n > 200 {
			return
		}
		for i := 0; i < n; i++ {
			e := p + 2 + 12*i
			if e+12 > len(d) {
				return
			}
			id := bo.Uint16(d[e:])
			typ := bo.Uint16(d[e+2:])
			cnt := bo.Uint32(d[e+4:])
			unit := map[uint16]int{1: 1, 2: 1, 3: 2, 4: 4, 5: 8, 7: 1, 9: 4, 10: 8}[typ]
			fs = append(fs, Field{e + 2, 2, "type", be, base, name + ".entry.type"}, Field{e + 4, 4, "ucount", be, base, name + ".entry.count"})
			switch {
			case id == 0x8769 || id == 0x8825:
				fs = append(fs, Field{e + 8, 4, "offset", be, base, name + ".entry.ifdptr"})
				sub := "exif"
				if id == 0x8825 {
					sub = "gps"
				}
				walk(int(bo.Uint32(d[e+8:])), sub, depth+1)
			case unit*int(cnt) > 4:
				fs = append(fs, Field{e + 8, 4, "offset", be, base, name + ".entry.valueoffset"})
				vo := base + int(bo.Uint32(d[e+8:]))
				if vo+unit*int(cnt) <= len(d) {
					fs = append(fs, Field{vo, unit * int(cnt), "data", be, base, name + ".value"})
				}
			default:
				fs = append(fs, Field{e + 8, 4, "data", be, base, name + ".entry.embedded"})
			}
		}
		fs = append(fs, Field{p + 2 + 12*n, 4, "offset", be, base, name + ".next"})
	}
	walk(int(bo.Uint32(d[base+4:])), "ifd0", 0)
	return fs
}

// MapJPEG walks the marker segments up to SOS.
func MapJPEG(d []byte) []Field {
	var fs []Field
	if len(d) < 4 {
		return nil
	}
	fs = append(fs, Field{0, 2, "magic", true, 0, "jpeg.soi"})
	p := 2
	for p+4 <= len(d) && d[p] == 0xFF {
		m := d[p+1]
		fs = append(fs, Field{p + 1, 1, "type", true, 0, "jpeg.marker"}, Field{p + 2, 2, "size", true, 0, "jpeg.seglen"})
		n := int(binary.BigEndian.Uint16(d[p+2:]))
		if m == 0xE1 && p+10 <= len(d) {
			fs = append(fs, Field{p + 4, 6, "magic", true, 0, "jpeg.app1prefix"})
		}
		if m == 0xDA {
			break
		}
		p += 2 + n
	}
	return fs
}

// MapPNG walks the chunks.
func MapPNG(d []byte) []Field {
	var fs []Field
	if len(d) < 8 {
		return nil
	}
	fs = append(fs, Field{0, 8, "magic", true, 0, "png.signature"})
	p := 8
	for p+8 <= len(d) {
		n := int(binary.BigEndian.Uint32(d[p:]))
		fs = append(fs, Field{p, 4, "size", true, 0, "png.chunklen"}, Field{p + 4, 4, "type", true, 0, "png.chunktype"})
		p += 12 + n
	}
	return fs
}

var bmffContainers = map[string]int{"moov": 0, "trak": 0, "iprp": 0, "ipco": 0, "meta": 4, "iref": 4}

// MapBMFF walks the box tree the generator wrote.
func MapBMFF(d []byte) []Field {
	var fs []Field
	var walk func(lo, hi, depth int)
	walk = func(lo, hi, depth int) {
		p := lo
		for p+8 <= hi && depth < 8 {
			n := int(binary.BigEndian.Uint32(d[p:]))
			typ := string(d[p+4 : p+8])
			hdr := 8
			fs = append(fs, Field{p, 4, "size", true, 0, "box.size:" + typ}, Field{p + 4, 4, "type", true, 0, "box.type:" + typ})
			if n == 1 && p+16 <= hi {
				n = int(binary.BigEndian.Uint64(d[p+8:]))
				fs = append(fs, Field{p + 8, 8, "size", true, 0, "box.largesize:" + typ})
				hdr = 16
			}
			if n < hdr || p+n > hi {
				return
			}
			body, end := p+hdr, p+n
			switch typ {
			case "uuid":
				if body+16 <= end {
					fs = append(fs, Field{body, 16, "magic", true, 0, "uuid.usertype"})
					if bytes.Equal(d[body:body+16], CR3MetaUUID) {
						walk(body+16, end, depth+1)
					}
					if bytes.Equal(d[body:body+16], CR3PreviewUUID) && body+24+24 <= end {
						fs = append(fs, Field{body + 24, 4, "size", true, 0, "PRVW.size"}, Field{body + 24 + 20, 4, "ucount", true, 0, "PRVW.jpegsize"})
					}
				}
			case "ftyp":
				fs = append(fs, Field{body, 4, "magic", true, 0, "ftyp.brand"})
			case "iinf":
				if body+6 <= end {
					fs = append(fs, Field{body + 4, 2, "count", true, 0, "iinf.count"})
					walk(body+6, end, depth+1)
				}
			case "infe":
				if body+12 <= end {
					fs = append(fs, Field{body, 1, "type", true, 0, "infe.version"}, Field{body + 8, 4, "magic", true, 0, "infe.itemtype"})
				}
			case "iloc":
				if body+8 <= end {
					fs = append(fs, Field{body, 1, "type", true, 0, "iloc.version"}, Field{body + 4, 1, "type", true, 0, "iloc.sizes"}, Field{body + 5, 1, "type", true, 0, "iloc.basesize"}, Field{body + 6, 2, "count", true, 0, "iloc.count"})
					for q := body + 8; q+14 <= end; q += 14 { // version 0, 4/4/0 as written by WrapHEIF
						fs = append(fs, Field{q + 4, 2, "count", true, 0, "iloc.extents"}, Field{q + 6, 4, "offset", true, 0, "iloc.offset"}, Field{q + 10, 4, "ucount", true, 0, "iloc.length"})
					}
				}
			case "CTBO":
				if body+4 <= end {
					fs = append(fs, Field{body, 4, "count", true, 0, "CTBO.count"})
					for q := body + 4; q+20 <= end; q += 20 { // records: number (1-based index into a fixed table), offset, size
						fs = append(fs, Field{q, 4, "count", true, 0, "CTBO.recno"}, Field{q + 4, 8, "offset", true, 0, "CTBO.offset"}, Field{q + 12, 8, "ucount", true, 0, "CTBO.size"})
					}
				}
			case "pitm", "hdlr", "CNCV":
				fs = append(fs, Field{body, end - body, "data", true, 0, typ + ".payload"})
			case "CMT1", "CMT2", "CMT3", "CMT4":
				fs = append(fs, MapTIFF(d, body)...)
			default:
				if skip, ok := bmffContainers[typ]; ok && body+skip <= end {
					walk(body+skip, end, depth+1)
				}
			}
			p = end
		}
	}
	walk(0, len(d), 0)
	return fs
}

// MapFile returns the field map of a generated file of the given container kind; tiff is the embedded TIFF block.
func MapFile(kind string, d []byte, tiff []byte) []Field {
	at := -1
	if len(tiff) > 8 {
		at = bytes.Index(d, tiff[:8])
	}
	switch kind {
	case "tiff":
		return MapTIFF(d, 0)
	case "jpeg":
		fs := MapJPEG(d)
		if at >= 0 {
			fs = append(fs, MapTIFF(d, at)...)
		}
		return fs
	case "png":
		fs := MapPNG(d)
		if at >= 0 {
			fs = append(fs, MapTIFF(d, at)...)
		}
		return fs
	case "cr3":
		return MapBMFF(d)
	case "heif", "avif":
		fs := MapBMFF(d)
		if at >= 0 {
			fs = append(fs, MapTIFF(d, at)...)
		}
		return fs
	}
	return nil
}
