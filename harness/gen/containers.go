package gen

import (
	"encoding/binary"
	"hash/crc32"
	"math/rand"
)

// Container writers, written from the format documents (JPEG/JFIF + Exif 2.3 APP1, PNG 1.2 +
// eXIf extension, ISO/IEC 14496-12 boxes, ISO/IEC 23008-12 item layout, Canon CR3 layout as
// documented by lclevy/canon_cr3). They embed a given TIFF block unchanged.

// Box builds an ISOBMFF box with a 32-bit size.
func Box(typ string, payload ...[]byte) []byte {
	n := 8
	for _, p := range payload {
		n += len(p)
	}
	b := make([]byte, 8, n)
	binary.BigEndian.PutUint32(b, uint32(n))
	copy(b[4:], typ)
	for _, p := range payload {
		b = append(b, p...)
	}
	return b
}

// Box64 builds an ISOBMFF box with a 64-bit size (size field 1, largesize after the type).
func Box64(typ string, payload ...[]byte) []byte {
	n := 16
	for _, p := range payload {
		n += len(p)
	}
	b := make([]byte, 16, n)
	binary.BigEndian.PutUint32(b, 1)
	copy(b[4:], typ)
	binary.BigEndian.PutUint64(b[8:], uint64(n))
	for _, p := range payload {
		b = append(b, p...)
	}
	return b
}

// FullBox builds a box with version/flags.
func FullBox(typ string, version byte, flags uint32, payload ...[]byte) []byte {
	vf := []byte{version, byte(flags >> 16), byte(flags >> 8), byte(flags)}
	return Box(typ, append([][]byte{vf}, payload...)...)
}

func u16(v int) []byte { return []byte{byte(v >> 8), byte(v)} }
func u32(v int) []byte { return []byte{byte(v >> 24), byte(v >> 16), byte(v >> 8), byte(v)} }

func randBytes(rng *rand.Rand, n int) []byte {
	b := make([]byte, n)
	for i := range b {
		b[i] = byte(rng.Intn(256))
	}
	return b
}

// noSig makes sure a filler holds no TIFF signature and no 'I'/'M' bytes at all (so that
// signature searches cannot be confused by surroundings -- the surroundings are not the subject).
func noSig(b []byte) []byte {
	for i := range b {
		if b[i] == 'I' || b[i] == 'M' {
			b[i] = 'x'
		}
	}
	return b
}

// Ftyp builds a file-type box.
func Ftyp(major string, compat ...string) []byte {
	p := []byte(major)
	p = append(p, 0, 0, 0, 1)
	for _, c := range compat {
		p = append(p, c...)
	}
	return Box("ftyp", p)
}

// UUIDs of the Canon CR3 top-level boxes.
var (
	CR3MetaUUID    = []byte{0x85, 0xc0, 0xb6, 0x87, 0x82, 0x0f, 0x11, 0xe0, 0x81, 0x11, 0xf4, 0xce, 0x46, 0x2b, 0x6a, 0x48}
	CR3XPacketUUID = []byte{0xbe, 0x7a, 0xcf, 0xcb, 0x97, 0xa9, 0x42, 0xe8, 0x9c, 0x71, 0x99, 0x94, 0x91, 0xe3, 0xaf, 0xac}
	CR3PreviewUUID = []byte{0xea, 0xf4, 0x2b, 0x5e, 0x1c, 0x98, 0x4b, 0x88, 0xb9, 0xfb, 0xb7, 0xdc, 0x40, 0x6e, 0x4d, 0x16}
)

// Surround describes random but harmless content placed around the metadata.
type Surround struct {
	Level int // 0 = minimal container, 1 = typical neighbours, 2 = many neighbours
}

// WrapJPEG embeds a TIFF block in an APP1 Exif segment. lvl controls the other segments.
func WrapJPEG(tiff []byte, rng *rand.Rand, lvl int) []byte {
	out := []byte{0xFF, 0xD8}
	seg := func(m byte, p []byte) {
		out = append(out, 0xFF, m, byte((len(p)+2)>>8), byte(len(p)+2))
		out = append(out, p...)
	}
	opaque := func(n int) []byte { return noSig(randBytes(rng, n)) }
	if lvl >= 1 {
		seg(0xE0, append([]byte("JFIF\x00\x01\x02\x00\x00\x48\x00\x48\x00\x00"), nil...))
	}
	if lvl >= 2 {
		seg(0xFE, opaque(1+rng.Intn(300)))
		seg(0xED, append([]byte("Photoshop 3.0\x00"), opaque(rng.Intn(200))...))
		if rng.Intn(4) == 0 { // a full ICC chunk: the longest segment there is (length field 0xFFFF), or one byte less
			seg(0xE2, append([]byte("ICC_PROFILE\x00\x01\x02"), opaque(65533-14-rng.Intn(2))...))
		}
	}
	seg(0xE1, append([]byte(exifPrefix), tiff...))
	if lvl >= 1 {
		seg(0xE1, append([]byte(xmpPrefix), []byte("<x:xmpmeta xmlns:x=\"adobe:ns:meta/\"></x:xmpmeta>")...))
	}
	if lvl >= 2 {
		seg(0xE2, append([]byte("ICC_PROFILE\x00\x01\x01"), opaque(rng.Intn(400))...))
		seg(0xDD, []byte{0, byte(rng.Intn(255))})
	}
	seg(0xDB, opaque(65))
	seg(0xC0, []byte{8, 0, 16, 0, 16, 3, 1, 0x11, 0, 2, 0x11, 1, 3, 0x11, 1})
	seg(0xC4, opaque(30))
	seg(0xDA, []byte{3, 1, 0, 2, 0x11, 3, 0x11, 0, 0x3f, 0})
	out = append(out, opaque(64+rng.Intn(200))...)
	out = append(out, 0xFF, 0xD9)
	return out
}

func pngChunk(typ string, data []byte) []byte {
	b := make([]byte, 8, 12+len(data))
	binary.BigEndian.PutUint32(b, uint32(len(data)))
	copy(b[4:], typ)
	b = append(b, data...)
	crc := crc32.ChecksumIEEE(b[4:])
	return append(b, byte(crc>>24), byte(crc>>16), byte(crc>>8), byte(crc))
}

// WrapPNG embeds a TIFF block in an eXIf chunk.
func WrapPNG(tiff []byte, rng *rand.Rand, lvl int) []byte {
	out := []byte("\x89PNG\r\n\x1a\n")
	out = append(out, pngChunk("IHDR", []byte{0, 0, 0, 16, 0, 0, 0, 16, 8, 2, 0, 0, 0})...)
	if lvl >= 1 {
		out = append(out, pngChunk("gAMA", []byte{0, 0, 0xb1, 0x8f})...)
	}
	if lvl >= 2 {
		out = append(out, pngChunk("tEXt", append([]byte("Comment\x00"), noSig(randBytes(rng, rng.Intn(300)))...))...)
		out = append(out, pngChunk("pHYs", []byte{0, 0, 0x0b, 0x13, 0, 0, 0x0b, 0x13, 1})...)
	}
	if lvl < 2 {
		out = append(out, pngChunk("eXIf", tiff)...)
	}
	if lvl >= 1 {
		out = append(out, pngChunk("IDAT", noSig(randBytes(rng, 40+rng.Intn(100))))...)
	}
	if lvl >= 2 { // the eXIf chunk may stand anywhere between IHDR and IEND, also behind the image data
		out = append(out, pngChunk("IDAT", noSig(randBytes(rng, 20+rng.Intn(60))))...)
		out = append(out, pngChunk("eXIf", tiff)...)
	}
	out = append(out, pngChunk("IEND", nil)...)
	return out
}

// CR3Parts are the TIFF blocks of the four CMT boxes (nil = box absent).
type CR3Parts struct {
	CMT1, CMT2, CMT3, CMT4 []byte
	XPacket                []byte // payload of the xpacket uuid box (nil = absent)
	Preview                []byte // JPEG bytes of the PRVW preview (nil = absent)
}

// PRVWBox builds the preview uuid box content: 8 unknown bytes + PRVW box (header per lclevy).
func PRVWBox(jpg []byte, w, h int) []byte {
	p := []byte{0, 0, 0, 0}         // unknown (0)
	p = append(p, 0, 1)             // unknown (1)
	p = append(p, u16(w)...)        // width  -- at payload offset 6 => box offset 14
	p = append(p, u16(h)...)        // height -- box offset 16
	p = append(p, 0, 1)             // unknown (1)
	p = append(p, u32(len(jpg))...) // jpeg size -- box offset 20
	p = append(p, jpg...)
	return Box("PRVW", p)
}

// WrapCR3 builds a Canon CR3 file skeleton around the CMT blocks.
func WrapCR3(parts CR3Parts, rng *rand.Rand, lvl int) []byte {
	out := Ftyp("crx ", "crx ", "isom")
	// at level 2 nested boxes use the (legal) 64-bit size form now and then
	Box := func(typ string, payload ...[]byte) []byte {
		if lvl >= 2 && typ != "moov" && rng.Intn(3) == 0 {
			return Box64(typ, payload...)
		}
		return Box(typ, payload...)
	}
	var meta []byte
	meta = append(meta, CR3MetaUUID...)
	cncv := []byte("CanonCR3_001/00.09.00/00.00.00")
	meta = append(meta, Box("CNCV", cncv)...)
	if lvl >= 1 {
		cctp := append(u32(0), u32(1)...)
		cctp = append(cctp, u32(3)...)
		meta = append(meta, Box("CCTP", cctp)...)
		nrec := 4 + lvl%2*0 + (lvl - 1) // 4 records at level 1, 5 at level 2 (both occur in camera files)
		ctbo := u32(nrec)
		for i := 1; i <= nrec; i++ {
			ctbo = append(ctbo, u32(i)...)
			ctbo = append(ctbo, make([]byte, 4)...)
			ctbo = append(ctbo, u32(1000*i)...)
			ctbo = append(ctbo, make([]byte, 4)...)
			ctbo = append(ctbo, u32(100*i)...)
		}
		meta = append(meta, Box("CTBO", ctbo)...)
	}
	if lvl >= 2 {
		meta = append(meta, Box("free", noSig(randBytes(rng, rng.Intn(40))))...)
	}
	if parts.CMT1 != nil {
		meta = append(meta, Box("CMT1", parts.CMT1)...)
	}
	if parts.CMT2 != nil {
		meta = append(meta, Box("CMT2", parts.CMT2)...)
	}
	if parts.CMT3 != nil {
		meta = append(meta, Box("CMT3", parts.CMT3)...)
	}
	if parts.CMT4 != nil {
		meta = append(meta, Box("CMT4", parts.CMT4)...)
	}
	if lvl >= 1 {
		meta = append(meta, Box("THMB", noSig(randBytes(rng, 16+rng.Intn(60))))...)
	}
	moov := Box("uuid", meta)
	if lvl >= 1 {
		moov = append(moov, Box("mvhd", make([]byte, 100))...)
		moov = append(moov, Box("trak", Box("tkhd", make([]byte, 84)))...)
	}
	out = append(out, Box("moov", moov)...)
	if parts.XPacket == nil { // a CR3 file always carries the xpacket, preview and mdat boxes after moov
		parts.XPacket = []byte("<?xpacket begin='' id='W5M0MpCehiHzreSzNTczkc9d'?><x:xmpmeta xmlns:x=\"adobe:ns:meta/\"></x:xmpmeta><?xpacket end='w'?>")
	}
	if parts.Preview == nil {
		parts.Preview = append([]byte{0xFF, 0xD8}, noSig(randBytes(rng, 40))...)
	}
	if parts.XPacket != nil {
		out = append(out, Box("uuid", CR3XPacketUUID, parts.XPacket)...)
	}
	if parts.Preview != nil {
		out = append(out, Box("uuid", CR3PreviewUUID, []byte{0, 0, 0, 0, 0, 0, 0, 1}, PRVWBox(parts.Preview, 1620, 1080))...)
	}
	out = append(out, Box("mdat", noSig(randBytes(rng, 64+rng.Intn(100))))...)
	return out
}

// WrapHEIF builds a HEIF/AVIF file whose Exif item (ISO 23008-12 A.2.1: 4-byte
// exif_tiff_header_offset, "Exif\0\0", TIFF block) lives in mdat, described by meta/iinf/iloc.
// brand: "heic" | "avif" | "mif1".
func WrapHEIF(tiff []byte, brand string, rng *rand.Rand, lvl int) []byte {
	compat := []string{"mif1", brand}
	if brand == "mif1" {
		compat = []string{"mif1", "heic"}
	}
	ftyp := Ftyp(brand, compat...)
	hdlr := FullBox("hdlr", 0, 0, u32(0), []byte("pict"), make([]byte, 12), []byte{0})
	pitm := FullBox("pitm", 0, 0, u16(1))
	infe := func(id int, typ string) []byte {
		name := []byte{0}
		if lvl >= 1 && typ != "Exif" { // item names are legal and optional: the image item carries one
			name = []byte("Image\x00")
		}
		return FullBox("infe", 2, 0, u16(id), u16(0), []byte(typ), name)
	}
	codec := "hvc1"
	if brand == "avif" {
		codec = "av01"
	}
	iinf := FullBox("iinf", 0, 0, u16(2), infe(1, codec), infe(2, "Exif"))
	item := append(u32(6), []byte("Exif\x00\x00")...)
	item = append(item, tiff...)
	img := noSig(randBytes(rng, 48+rng.Intn(64)))
	var extra []byte
	if lvl >= 1 {
		ispe := FullBox("ispe", 0, 0, u32(16), u32(16))
		ipco := Box("ipco", ispe)
		ipma := FullBox("ipma", 0, 0, u32(1), u16(1), []byte{1, 0x81})
		extra = append(extra, Box("iprp", ipco, ipma)...)
		extra = append(extra, FullBox("iref", 0, 0, Box("cdsc", u16(2), u16(1), u16(1)))...)
	}
	// iloc (version 0, offset_size 4, length_size 4, base_offset_size 0): offsets are absolute file offsets
	mk := func(imgOff, exifOff int) []byte {
		first := [][]byte{u16(1), u16(0), u16(1), u32(imgOff), u32(len(img))}
		if lvl >= 2 { // the image item in two extents (legal; the Exif item's entry follows it)
			h := len(img) / 2
			first = [][]byte{u16(1), u16(0), u16(2), u32(imgOff), u32(h), u32(imgOff + h), u32(len(img) - h)}
		}
		iloc := FullBox("iloc", 0, 0, append([][]byte{{0x44, 0x00}, u16(2)}, append(first,
			u16(2), u16(0), u16(1), u32(exifOff), u32(len(item)))...)...)
		meta := FullBox("meta", 0, 0, hdlr, pitm, iinf, iloc, extra)
		return meta
	}
	meta := mk(0, 0)
	base := len(ftyp) + len(meta) + 8 // mdat payload start
	meta = mk(base, base+len(img))
	out := append(ftyp, meta...)
	out = append(out, Box("mdat", img, item, noSig(randBytes(rng, 32+16*lvl)))...)
	return out
}
