package gen

import (
	"encoding/binary"
	"fmt"
	"math/rand"
	"strings"
	"time"
)

// AEntry is an abstract directory entry chosen by the Exif specification.
type AEntry struct {
	Key int    `json:"key"`
	Ifd string `json:"ifd"`
	Cls string `json:"cls"`
}

// ABlock is a placed block (value block or sub-directory).
type ABlock struct {
	T    string `json:"t"`
	Key  int    `json:"key"`
	Ifd  string `json:"ifd"`
	Size int    `json:"size"`
}

// ExifCase is one terminal state of the Exif specification.
type ExifCase struct {
	Pick    []AEntry            `json:"pick"`
	Bulk    int                 `json:"bulk"`
	Pad     int                 `json:"pad"`
	Ifd0At  int                 `json:"ifd0at"`
	Variant string              `json:"variant"`
	Dirs    map[string][]AEntry `json:"dirs"`
	Lay     []ABlock            `json:"lay"`
	Offs    []int               `json:"offs"`
	BulkAt  int                 `json:"bulkAt"`
	Len     int                 `json:"len"`
	Out     []int               `json:"out"`
	Dropped [][]interface{}     `json:"dropped"`
	Reads   int                 `json:"reads"`
}

// ExpandBulk re-creates the bulk filler the specification emits in compact form: entries
// 1001..1000+bulk at the end of IFD0 and a contiguous run of 8-byte value blocks from BulkAt.
func (c *ExifCase) ExpandBulk() {
	if c.Bulk == 0 || (len(c.Dirs["IFD0"]) > 0 && c.Dirs["IFD0"][len(c.Dirs["IFD0"])-1].Key > 1000) {
		return
	}
	for i := 1; i <= c.Bulk; i++ {
		c.Dirs["IFD0"] = append(c.Dirs["IFD0"], AEntry{Key: 1000 + i, Ifd: "IFD0", Cls: "fOol"})
		c.Lay = append(c.Lay, ABlock{T: "val", Key: 1000 + i, Ifd: "IFD0", Size: 8})
		c.Offs = append(c.Offs, c.BulkAt+(i-1)*(c.Pad+8))
	}
}

// TIFF field types
const (
	tByte      = 1
	tASCII     = 2
	tShort     = 3
	tLong      = 4
	tRational  = 5
	tSRational = 10
)

// LVal is a logical TIFF value, independent of byte order.
type LVal struct {
	Typ    uint16
	Shorts []uint16
	Longs  []uint32
	Raw    []byte      // BYTE / ASCII (including the terminating NUL)
	Rats   [][2]uint32 // RATIONAL / SRATIONAL (two's complement for signed)
}

func (v LVal) unit() int {
	switch v.Typ {
	case tShort:
		return 2
	case tLong:
		return 4
	case tRational, tSRational:
		return 8
	}
	return 1
}

// Count is the TIFF count field.
func (v LVal) Count() uint32 {
	switch v.Typ {
	case tShort:
		return uint32(len(v.Shorts))
	case tLong:
		return uint32(len(v.Longs))
	case tRational, tSRational:
		return uint32(len(v.Rats))
	}
	return uint32(len(v.Raw))
}

// Size is the encoded size in bytes.
func (v LVal) Size() int { return int(v.Count()) * v.unit() }

// Encode serialises the value in the given byte order.
func (v LVal) Encode(bo binary.ByteOrder) []byte {
	out := make([]byte, 0, v.Size())
	var b [8]byte
	switch v.Typ {
	case tShort:
		for _, s := range v.Shorts {
			bo.PutUint16(b[:], s)
			out = append(out, b[:2]...)
		}
	case tLong:
		for _, l := range v.Longs {
			bo.PutUint32(b[:], l)
			out = append(out, b[:4]...)
		}
	case tRational, tSRational:
		for _, r := range v.Rats {
			bo.PutUint32(b[:], r[0])
			bo.PutUint32(b[4:], r[1])
			out = append(out, b[:8]...)
		}
	default:
		out = append(out, v.Raw...)
	}
	return out
}

// Bound is the concrete binding of one abstract entry: a real tag, its logical value and
// the fields a correct decoder must report for it.
type Bound struct {
	ID     uint16
	Name   string
	Val    LVal
	Fields map[string]interface{}
	// raw overrides for malformed entries (type outside the TIFF range)
	RawType uint16
}

type tagSpec struct {
	id   uint16
	name string
	gen  func(rng *rand.Rand, size int) (LVal, map[string]interface{})
}

func pstr(rng *rand.Rand, n int) string {
	const al = "abcdefghijklmnopqrstuvwxyzABCDEFGHIJKLMNOPQRSTUVWXYZ0123456789-_.,:/()"
	b := make([]byte, n)
	for i := range b {
		b[i] = al[rng.Intn(len(al))]
		if i > 0 && i < n-1 && rng.Intn(7) == 0 {
			b[i] = ' '
		}
	}
	return string(b)
}

func asciiVal(s string) LVal { return LVal{Typ: tASCII, Raw: append([]byte(s), 0)} }

func strTag(id uint16, name, field string) tagSpec {
	return tagSpec{id, name, func(rng *rand.Rand, size int) (LVal, map[string]interface{}) {
		n := size - 1
		if size <= 4 { // embedded: 1..3 characters + NUL
			n = 1 + rng.Intn(3)
		}
		s := pstr(rng, n)
		return asciiVal(s), map[string]interface{}{field: s}
	}}
}

func shortTag(id uint16, name, field string, pick func(rng *rand.Rand) uint16) tagSpec {
	return tagSpec{id, name, func(rng *rand.Rand, size int) (LVal, map[string]interface{}) {
		v := pick(rng)
		return LVal{Typ: tShort, Shorts: []uint16{v}}, map[string]interface{}{field: float64(v)}
	}}
}

// short2Tag: a SHORT field with count 2 that fills the 4-byte slot (legal for the "any count" fields); the first value is reported.
func short2Tag(id uint16, name, field string) tagSpec {
	return tagSpec{id, name, func(rng *rand.Rand, size int) (LVal, map[string]interface{}) {
		v, w := any16(rng), any16(rng)
		return LVal{Typ: tShort, Shorts: []uint16{v, w}}, map[string]interface{}{field: float64(v)}
	}}
}

// longAltTag: a field the Exif specification types SHORT, written as LONG (count 1). What a reader reports for it is
// not defined (the field is left undetermined for the exact-value checks); C07 requires II and MM to agree on it.
func longAltTag(id uint16, name, field string, pick func(rng *rand.Rand) uint16) tagSpec {
	return tagSpec{id, name, func(rng *rand.Rand, size int) (LVal, map[string]interface{}) {
		return LVal{Typ: tLong, Longs: []uint32{uint32(pick(rng))}}, map[string]interface{}{"~skip:" + field: true}
	}}
}

// long2Tag: a LONG field with two values (a two-strip image), stored out of line. The report is left undetermined
// for the exact-value checks; C07 requires II and MM to agree on it.
func long2Tag(id uint16, name, field string) tagSpec {
	return tagSpec{id, name, func(rng *rand.Rand, size int) (LVal, map[string]interface{}) {
		return LVal{Typ: tLong, Longs: []uint32{65536 + uint32(rng.Intn(1<<20)), 70000 + uint32(rng.Intn(1<<24))}}, map[string]interface{}{"~skip:" + field: true}
	}}
}

func longTag(id uint16, name, field string, max uint32) tagSpec {
	return tagSpec{id, name, func(rng *rand.Rand, size int) (LVal, map[string]interface{}) {
		v := 1 + uint32(rng.Int63n(int64(max)))
		return LVal{Typ: tLong, Longs: []uint32{v}}, map[string]interface{}{field: float64(v)}
	}}
}

func ratTag(id uint16, name, field string) tagSpec {
	return tagSpec{id, name, func(rng *rand.Rand, size int) (LVal, map[string]interface{}) {
		n, d := 1+uint32(rng.Intn(100000)), 1+uint32(rng.Intn(10000))
		// a quarter of the values sit on the boundaries of the unsigned 32-bit numerator / denominator
		edge := []uint32{1, 65535, 65536, 1<<31 - 1, 1 << 31, 1<<32 - 1}
		switch rng.Intn(8) {
		case 0:
			n = edge[rng.Intn(len(edge))]
		case 1:
			n, d = edge[rng.Intn(len(edge))], edge[rng.Intn(len(edge))]
		}
		return LVal{Typ: tRational, Rats: [][2]uint32{{n, d}}}, map[string]interface{}{field: float64(n) / float64(d)}
	}}
}

func any16(rng *rand.Rand) uint16 { return uint16(1 + rng.Intn(65535)) }
func oneOf(vs ...uint16) func(*rand.Rand) uint16 {
	return func(rng *rand.Rand) uint16 { return vs[rng.Intn(len(vs))] }
}

// DateParts is a calendar date-time used for expected values.
type DateParts struct{ Y, Mo, D, H, Mi, S int }

func randDate(rng *rand.Rand) DateParts {
	return DateParts{1 + rng.Intn(9999), 1 + rng.Intn(12), 1 + rng.Intn(28), rng.Intn(24), rng.Intn(60), rng.Intn(60)}
}

func (d DateParts) exif() string {
	return fmt.Sprintf("%04d:%02d:%02d %02d:%02d:%02d", d.Y, d.Mo, d.D, d.H, d.Mi, d.S)
}

func dateTag(id uint16, name, field string) tagSpec {
	return tagSpec{id, name, func(rng *rand.Rand, size int) (LVal, map[string]interface{}) {
		d := randDate(rng)
		return asciiVal(d.exif()), map[string]interface{}{field + ".date": d}
	}}
}

func zoneTag(id uint16, name, field string) tagSpec {
	return tagSpec{id, name, func(rng *rand.Rand, size int) (LVal, map[string]interface{}) {
		h, m := rng.Intn(15), []int{0, 30, 45, 15}[rng.Intn(4)]
		if h == 14 {
			m = 0
		}
		sign := 1
		sc := '+'
		if rng.Intn(2) == 0 && (h != 0 || m != 0) {
			sign, sc = -1, '-'
		}
		s := fmt.Sprintf("%c%02d:%02d", sc, h, m)
		return asciiVal(s), map[string]interface{}{field + ".zone": float64(sign * (h*3600 + m*60)), field + ".zonename": s}
	}}
}

func subsecTag(id uint16, name, field string) tagSpec {
	return tagSpec{id, name, func(rng *rand.Rand, size int) (LVal, map[string]interface{}) {
		n := size - 1 // digits
		if size <= 4 {
			n = 1 + rng.Intn(3)
		}
		ds := make([]byte, n)
		for i := range ds {
			ds[i] = byte('0' + rng.Intn(10))
		}
		// decimal fraction of a second, reported in milliseconds (the reported type's precision)
		ms := 0
		for i := 0; i < 3; i++ {
			ms *= 10
			if i < n {
				ms += int(ds[i] - '0')
			}
		}
		return asciiVal(string(ds)), map[string]interface{}{field + ".ms": float64(ms)}
	}}
}

var catalog = map[string]map[string][]tagSpec{
	"IFD0": {
		"embShort":   {shortTag(0x0112, "Orientation", "Orientation", oneOf(1, 2, 3, 4, 5, 6, 7, 8)), shortTag(0x0100, "ImageWidth", "ImageWidth", any16), shortTag(0x0101, "ImageLength", "ImageHeight", any16)},
		"embLong":    {longTag(0x0100, "ImageWidth", "ImageWidth", 65535), longTag(0x0101, "ImageLength", "ImageHeight", 65535), longTag(0x0111, "StripOffsets", "StripOffsets", 1<<31), longTag(0x0117, "StripByteCounts", "StripByteCounts", 1<<31)},
		"embShort2":  {short2Tag(0x0111, "StripOffsets", "StripOffsets"), short2Tag(0x0117, "StripByteCounts", "StripByteCounts")},
		"embLongAlt": {longAltTag(0x0112, "Orientation", "Orientation", oneOf(1, 2, 3, 4, 5, 6, 7, 8))},
		"long2":      {long2Tag(0x0111, "StripOffsets", "StripOffsets"), long2Tag(0x0117, "StripByteCounts", "StripByteCounts")},
		"embAscii":   {strTag(0x0131, "Software", "Software"), strTag(0x013b, "Artist", "Artist"), strTag(0x8298, "Copyright", "Copyright"), strTag(0x010e, "ImageDescription", "ImageDescription")},
		"ascii":      {strTag(0x010f, "Make", "Make"), strTag(0x0110, "Model", "Model"), strTag(0x0131, "Software", "Software"), strTag(0x013b, "Artist", "Artist"), strTag(0x8298, "Copyright", "Copyright"), strTag(0x010e, "ImageDescription", "ImageDescription"), strTag(0xc62f, "CameraSerialNumber", "CameraSerial")},
		"date":       {dateTag(0x0132, "DateTime", "ModifyDate")},
	},
	"Exif": {
		"embLong": {longTag(0xa002, "PixelXDimension", "ImageWidth", 65535), longTag(0xa003, "PixelYDimension", "ImageHeight", 65535)},
		"embShort": {shortTag(0x8822, "ExposureProgram", "ExposureProgram", oneOf(0, 1, 2, 3, 4, 5, 6, 7, 8, 9)), shortTag(0x8827, "ISOSpeedRatings", "ISOSpeed", any16),
			shortTag(0x9207, "MeteringMode", "MeteringMode", oneOf(0, 1, 2, 3, 4, 5, 6, 255)), shortTag(0x9209, "Flash", "Flash", oneOf(0, 1, 5, 7, 8, 9, 13, 15, 16, 24, 25, 29, 31, 32, 65, 69, 71, 73, 77, 79, 89, 93, 95)),
			shortTag(0xa402, "ExposureMode", "ExposureMode", oneOf(0, 1, 2)), shortTag(0xa405, "FocalLengthIn35mmFilm", "FocalLengthIn35mmFormat", any16)},
		"embShort2": {short2Tag(0x8827, "ISOSpeedRatings", "ISOSpeed")},
		"embLongAlt": {longAltTag(0x8822, "ExposureProgram", "ExposureProgram", oneOf(1, 2, 3, 4)), longAltTag(0x9207, "MeteringMode", "MeteringMode", oneOf(1, 2, 3, 5)),
			longAltTag(0x9209, "Flash", "Flash", oneOf(1, 5, 9, 16)), longAltTag(0xa402, "ExposureMode", "ExposureMode", oneOf(1, 2))},
		"embAscii": {subsecTag(0x9290, "SubSecTime", "ModifyDate"), subsecTag(0x9291, "SubSecTimeOriginal", "DateTimeOriginal"), subsecTag(0x9292, "SubSecTimeDigitized", "CreateDate")},
		"rat":      {ratTag(0x829a, "ExposureTime", "ExposureTime"), ratTag(0x829d, "FNumber", "FNumber"), ratTag(0x920a, "FocalLength", "FocalLength")},
		"srat": {{0x9204, "ExposureBiasValue", func(rng *rand.Rand, size int) (LVal, map[string]interface{}) {
			n, d := rng.Intn(256)-128, 1+rng.Intn(127)
			return LVal{Typ: tSRational, Rats: [][2]uint32{{uint32(int32(n)), uint32(d)}}}, map[string]interface{}{"ExposureBias": float64(int16(n)<<8 + int16(d))}
		}}},
		"rat4": {{0xa432, "LensSpecification", func(rng *rand.Rand, size int) (LVal, map[string]interface{}) {
			var r [][2]uint32
			var li []interface{}
			for i := 0; i < 4; i++ {
				n, d := uint32(rng.Intn(60000)), 1+uint32(rng.Intn(100))
				r = append(r, [2]uint32{n, d})
				li = append(li, float64(n), float64(d))
			}
			return LVal{Typ: tRational, Rats: r}, map[string]interface{}{"LensInfo": li}
		}}},
		"date":   {dateTag(0x9003, "DateTimeOriginal", "DateTimeOriginal"), dateTag(0x9004, "DateTimeDigitized", "CreateDate")},
		"zone":   {zoneTag(0x9010, "OffsetTime", "ModifyDate"), zoneTag(0x9011, "OffsetTimeOriginal", "DateTimeOriginal"), zoneTag(0x9012, "OffsetTimeDigitized", "CreateDate")},
		"subsec": {subsecTag(0x9290, "SubSecTime", "ModifyDate"), subsecTag(0x9291, "SubSecTimeOriginal", "DateTimeOriginal"), subsecTag(0x9292, "SubSecTimeDigitized", "CreateDate")},
		"ascii":  {strTag(0xa433, "LensMake", "LensMake"), strTag(0xa434, "LensModel", "LensModel"), strTag(0xa435, "LensSerialNumber", "LensSerial"), strTag(0xa431, "BodySerialNumber", "CameraSerial"), strTag(0xa430, "CameraOwnerName", "Artist")},
	},
	"GPS": {
		"embAscii": {{1, "GPSLatitudeRef", func(rng *rand.Rand, size int) (LVal, map[string]interface{}) {
			s := []string{"N", "S"}[rng.Intn(2)]
			return asciiVal(s), map[string]interface{}{"GPS.latneg": s == "S"}
		}}, {3, "GPSLongitudeRef", func(rng *rand.Rand, size int) (LVal, map[string]interface{}) {
			s := []string{"E", "W"}[rng.Intn(2)]
			return asciiVal(s), map[string]interface{}{"GPS.lonneg": s == "W"}
		}}},
		"embByte": {{5, "GPSAltitudeRef", func(rng *rand.Rand, size int) (LVal, map[string]interface{}) {
			v := byte(rng.Intn(2))
			return LVal{Typ: tByte, Raw: []byte{v}}, map[string]interface{}{"GPS.altneg": v == 1}
		}}},
		"rat3": {{2, "GPSLatitude", func(rng *rand.Rand, size int) (LVal, map[string]interface{}) { return coord(rng, 90, "GPS.lat") }},
			{4, "GPSLongitude", func(rng *rand.Rand, size int) (LVal, map[string]interface{}) { return coord(rng, 180, "GPS.lon") }},
			{7, "GPSTimeStamp", func(rng *rand.Rand, size int) (LVal, map[string]interface{}) {
				h, m, s := uint32(rng.Intn(24)), uint32(rng.Intn(60)), uint32(rng.Intn(60))
				return LVal{Typ: tRational, Rats: [][2]uint32{{h, 1}, {m, 1}, {s, 1}}}, map[string]interface{}{"GPS.time": float64(h*3600 + m*60 + s)}
			}}},
		"rat": {{6, "GPSAltitude", func(rng *rand.Rand, size int) (LVal, map[string]interface{}) {
			n, d := uint32(rng.Intn(900000)), 1+uint32(rng.Intn(100))
			return LVal{Typ: tRational, Rats: [][2]uint32{{n, d}}}, map[string]interface{}{"GPS.alt": float64(n) / float64(d)}
		}}},
		"date11": {{0x1d, "GPSDateStamp", func(rng *rand.Rand, size int) (LVal, map[string]interface{}) {
			d := randDate(rng)
			d.H, d.Mi, d.S = 0, 0, 0
			return asciiVal(fmt.Sprintf("%04d:%02d:%02d", d.Y, d.Mo, d.D)), map[string]interface{}{"GPS.date": d}
		}}},
	},
}

func coord(rng *rand.Rand, maxDeg int, field string) (LVal, map[string]interface{}) {
	d, m := uint32(rng.Intn(maxDeg)), uint32(rng.Intn(60))
	sn, sd := uint32(rng.Intn(600000)), uint32(10000)
	switch rng.Intn(4) {
	case 0: // decimal degrees, minutes and seconds zero (as some writers do)
		dn, dd := uint32(rng.Intn(maxDeg*1000000)), uint32(1000000)
		return LVal{Typ: tRational, Rats: [][2]uint32{{dn, dd}, {0, 1}, {0, 1}}}, map[string]interface{}{field: float64(dn) / float64(dd)}
	case 1: // degrees and decimal minutes
		mn, md := uint32(rng.Intn(600000)), uint32(10000)
		return LVal{Typ: tRational, Rats: [][2]uint32{{d, 1}, {mn, md}, {0, 1}}}, map[string]interface{}{field: float64(d) + float64(mn)/float64(md)/60}
	}
	v := float64(d)/1 + float64(m)/1/60 + float64(sn)/float64(sd)/3600
	return LVal{Typ: tRational, Rats: [][2]uint32{{d, 1}, {m, 1}, {sn, sd}}}, map[string]interface{}{field: v}
}

var foreign = map[string][]uint16{"IFD0": {0x011a, 0x011b, 0x013e, 0x013f, 0x0211}, "Exif": {0xa20e, 0xa20f, 0x9205, 0x9206}, "GPS": {0x0b, 0x0d, 0x0f, 0x11}}
var foreignEmb = map[string][]uint16{"IFD0": {0x0128, 0x0103, 0x0106}, "Exif": {0xa001, 0xa403, 0xa406}, "GPS": {0x12, 0x1e}}

// tsOf maps the zone / sub-second tags to the timestamp they qualify.
var tsOf = map[uint16]string{0x9010: "ModifyDate", 0x9011: "DateTimeOriginal", 0x9012: "CreateDate",
	0x9290: "ModifyDate", 0x9291: "DateTimeOriginal", 0x9292: "CreateDate"}

func classKey(cls string) (string, int) {
	switch cls {
	case "ascii9":
		return "ascii", 9
	case "ascii33":
		return "ascii", 33
	case "ascii5":
		return "ascii", 5
	case "rat":
		return "rat", 8
	case "srat":
		return "srat", 8
	case "rat3":
		return "rat3", 24
	case "rat4":
		return "rat4", 32
	case "date":
		return "date", 20
	case "date11":
		return "date11", 11
	case "zone":
		return "zone", 7
	case "subsec":
		return "subsec", 7
	case "subsec5":
		return "subsec", 5
	case "long2":
		return "long2", 8
	}
	return cls, 4
}

// BindCase binds every abstract entry of the case to a concrete tag and logical value.
// The binding is byte-order independent, so the same record can be encoded II and MM.
func BindCase(c *ExifCase, rng *rand.Rand) (map[int]*Bound, error) {
	out := map[int]*Bound{}
	used := map[string]bool{}
	usedField := map[string]bool{}
	bulkID := uint16(0xc000)
	// a class with a single candidate tag keeps it: other classes of the record that could also use the id leave it alone
	reserved := map[string]int{}
	demand := map[string]int{} // tag -> number of entries of this record whose class could be bound to it
	for _, dir := range []string{"IFD0", "Exif", "GPS"} {
		for _, e := range c.Dirs[dir] {
			ck, _ := classKey(e.Cls)
			specs := catalog[dir][ck]
			if len(specs) == 1 {
				reserved[fmt.Sprintf("%s/%04x", dir, specs[0].id)] = e.Key
			}
			for _, s := range specs {
				demand[fmt.Sprintf("%s/%04x", dir, s.id)]++
			}
		}
	}
	for _, dir := range []string{"IFD0", "Exif", "GPS"} {
		for _, e := range c.Dirs[dir] {
			switch e.Cls {
			case "exifptr":
				out[e.Key] = &Bound{ID: 0x8769, Name: "ExifTag", Val: LVal{Typ: tLong, Longs: []uint32{0}}}
				continue
			case "gpsptr":
				out[e.Key] = &Bound{ID: 0x8825, Name: "GPSTag", Val: LVal{Typ: tLong, Longs: []uint32{0}}}
				continue
			case "fOol":
				id := bulkID
				if e.Key < 1000 {
					ids := foreign[dir]
					id = ids[rng.Intn(len(ids))]
				} else {
					bulkID++
				}
				out[e.Key] = &Bound{ID: id, Name: "foreign", Val: LVal{Typ: tRational, Rats: [][2]uint32{{rng.Uint32(), rng.Uint32()}}}}
				continue
			case "fEmb":
				ids := foreignEmb[dir]
				out[e.Key] = &Bound{ID: ids[rng.Intn(len(ids))], Name: "foreign", Val: LVal{Typ: tShort, Shorts: []uint16{uint16(rng.Intn(65536))}}}
				continue
			case "inv":
				out[e.Key] = &Bound{ID: 0x9999, Name: "invalid-type", Val: LVal{Typ: tLong, Longs: []uint32{rng.Uint32()}}, RawType: []uint16{0, 6, 13, 14, 99}[rng.Intn(5)]}
				continue
			}
			ck, size := classKey(e.Cls)
			specs := catalog[dir][ck]
			if len(specs) == 0 {
				return nil, fmt.Errorf("no catalog entry for %s/%s", dir, e.Cls)
			}
			var pick *tagSpec
			// parts of a composite timestamp (zone, sub-seconds) prefer the timestamp whose date is already bound
			if ck == "zone" || ck == "subsec" || (dir == "Exif" && ck == "embAscii") {
				for si := range specs {
					s := &specs[si]
					k := fmt.Sprintf("%s/%04x", dir, s.id)
					if !used[k] && usedField[tsOf[s.id]+".date"] && rng.Intn(4) != 0 {
						pick = s
						used[k] = true
						break
					}
				}
			}
			if pick == nil {
				// among the free candidates take one that the fewest other entries of this record could also use
				// (classes share tags: StripOffsets may be written as LONG, as two SHORTs or as two LONGs)
				var free []*tagSpec
				best := 1 << 30
				for si := range specs {
					s := &specs[si]
					k := fmt.Sprintf("%s/%04x", dir, s.id)
					if owner, ok := reserved[k]; used[k] || (ok && owner != e.Key) {
						continue
					}
					d := demand[k]
					if d < best {
						best, free = d, free[:0]
					}
					if d == best {
						free = append(free, s)
					}
				}
				if len(free) > 0 {
					pick = free[rng.Intn(len(free))]
					used[fmt.Sprintf("%s/%04x", dir, pick.id)] = true
				}
			}
			if pick == nil {
				return nil, fmt.Errorf("catalog exhausted for %s/%s", dir, e.Cls)
			}
			val, fields := pick.gen(rng, size)
			// two entries that feed the same reported field (ImageWidth short/long twins are excluded by `used`;
			// Artist <- CameraOwnerName): keep the first, treat the later one as shadowed
			for f := range fields {
				if usedField[f] {
					delete(fields, f)
					if f == "CameraSerial" {
						// CameraSerialNumber (IFD0) and BodySerialNumber (Exif) both feed this field and the library keeps
						// whichever value it meets first in the stream: with both present the report is not determined
						fields["~skip:CameraSerial"] = true
					}
				} else {
					usedField[f] = true
				}
			}
			out[e.Key] = &Bound{ID: pick.id, Name: pick.name, Val: val, Fields: fields}
		}
	}
	return out, nil
}

// BuildTIFF writes the TIFF block of a case in the given byte order ("LE" | "BE").
func BuildTIFF(c *ExifCase, bind map[int]*Bound, order string) []byte {
	var bo binary.ByteOrder = binary.LittleEndian
	if order == "BE" {
		bo = binary.BigEndian
	}
	n := c.Len
	if c.Variant == "tiff" && n < c.Ifd0At+32 {
		n = c.Ifd0At + 32 // a TIFF *file* is never this small: the header search needs 32 bytes (C12's own domain)
	}
	buf := make([]byte, n)
	for i := range buf {
		buf[i] = 0xEE // padding is visibly not zero
	}
	if order == "BE" {
		copy(buf, "MM\x00\x2a")
	} else {
		copy(buf, "II\x2a\x00")
	}
	bo.PutUint32(buf[4:], uint32(c.Ifd0At))
	offOf := map[int]int{}
	for i, b := range c.Lay {
		offOf[b.Key] = c.Offs[i]
	}
	writeDir := func(at int, es []AEntry) {
		bo.PutUint16(buf[at:], uint16(len(es)))
		p := at + 2
		for _, e := range es {
			b := bind[e.Key]
			typ := b.Val.Typ
			if b.RawType != 0 || e.Cls == "inv" {
				typ = b.RawType
			}
			bo.PutUint16(buf[p:], b.ID)
			bo.PutUint16(buf[p+2:], typ)
			bo.PutUint32(buf[p+4:], b.Val.Count())
			slot := buf[p+8 : p+12]
			copy(slot, []byte{0, 0, 0, 0})
			switch {
			case e.Cls == "exifptr" || e.Cls == "gpsptr":
				bo.PutUint32(slot, uint32(offOf[e.Key]))
			case b.Val.Size() <= 4:
				copy(slot, b.Val.Encode(bo))
			default:
				bo.PutUint32(slot, uint32(offOf[e.Key]))
				copy(buf[offOf[e.Key]:], b.Val.Encode(bo))
			}
			p += 12
		}
		bo.PutUint32(buf[p:], 0) // next IFD
	}
	writeDir(c.Ifd0At, c.Dirs["IFD0"])
	for i, b := range c.Lay {
		if b.T == "dir" {
			writeDir(c.Offs[i], c.Dirs[b.Ifd])
		}
	}
	return buf
}

// ExpectedFields merges the fields of the entries the specification says are reported.
func ExpectedFields(c *ExifCase, bind map[int]*Bound) map[string]interface{} {
	exp := map[string]interface{}{}
	for _, k := range c.Out {
		if b := bind[k]; b != nil {
			for f, v := range b.Fields {
				exp[f] = v
			}
		}
	}
	// "undetermined" markers hold for every entry that is present, reported or not
	for _, b := range bind {
		for f, v := range b.Fields {
			if strings.HasPrefix(f, "~skip:") {
				exp[f] = v
			}
		}
	}
	return exp
}

// Date converts date parts, sub-second milliseconds and a zone offset into the instant a correct decoder reports.
func (d DateParts) Time(ms int, zoneSec int, hasZone bool) time.Time {
	loc := time.UTC
	if hasZone {
		loc = time.FixedZone("", zoneSec)
	}
	return time.Date(d.Y, time.Month(d.Mo), d.D, d.H, d.Mi, d.S, ms*1000000, loc)
}

// BuildDirTIFF writes a TIFF block whose FIRST directory (at ifdAt) holds the given entries, with the
// out-of-line values placed after the directory in entry order (a forward layout). Used for the CR3
// CMT2 / CMT4 boxes, whose payload is a TIFF block rooted at the Exif / GPS directory.
func BuildDirTIFF(es []AEntry, bind map[int]*Bound, order string, ifdAt int) []byte {
	var bo binary.ByteOrder = binary.LittleEndian
	if order == "BE" {
		bo = binary.BigEndian
	}
	size := ifdAt + 2 + 12*len(es) + 4
	offs := map[int]int{}
	for _, e := range es {
		if b := bind[e.Key]; b.Val.Size() > 4 {
			offs[e.Key] = size
			size += b.Val.Size()
		}
	}
	buf := make([]byte, size)
	for i := range buf {
		buf[i] = 0xEE
	}
	if order == "BE" {
		copy(buf, "MM\x00\x2a")
	} else {
		copy(buf, "II\x2a\x00")
	}
	bo.PutUint32(buf[4:], uint32(ifdAt))
	bo.PutUint16(buf[ifdAt:], uint16(len(es)))
	p := ifdAt + 2
	for _, e := range es {
		b := bind[e.Key]
		typ := b.Val.Typ
		if b.RawType != 0 || e.Cls == "inv" {
			typ = b.RawType
		}
		bo.PutUint16(buf[p:], b.ID)
		bo.PutUint16(buf[p+2:], typ)
		bo.PutUint32(buf[p+4:], b.Val.Count())
		slot := buf[p+8 : p+12]
		copy(slot, []byte{0, 0, 0, 0})
		if b.Val.Size() <= 4 {
			copy(slot, b.Val.Encode(bo))
		} else {
			bo.PutUint32(slot, uint32(offs[e.Key]))
			copy(buf[offs[e.Key]:], b.Val.Encode(bo))
		}
		p += 12
	}
	bo.PutUint32(buf[p:], 0)
	return buf
}

// BuildFullTIFF writes a TIFF block that carries EVERY tag of the catalog (all directories, all
// encoding classes, one entry per tag id), in a simple forward layout: IFD0, its values, the Exif
// directory, its values, the GPS directory, its values. Used as the base of fault injection so that
// every value parser of the library is reached.
func BuildFullTIFF(rng *rand.Rand, order string) []byte { return BuildFullTIFFAt(rng, order, 8) }

// BuildFullTIFFAt is BuildFullTIFF with IFD0 at ifd0At (>= 8; the gap after the header is filler): the
// same directories and values at every alignment with a reader's buffer windows.
func BuildFullTIFFAt(rng *rand.Rand, order string, ifd0At int) []byte {
	return BuildFullTIFFFill(rng, order, ifd0At, nil)
}

// BuildFullTIFFFill is BuildFullTIFFAt with the directories padded to a given number of entries by unrelated
// embedded tags (private ids 0xC000..., SHORT): fill["Exif"] = 128 makes the Exif directory exactly 128 entries long.
func BuildFullTIFFFill(rng *rand.Rand, order string, ifd0At int, fill map[string]int) []byte {
	var bo binary.ByteOrder = binary.LittleEndian
	if order == "BE" {
		bo = binary.BigEndian
	}
	type ent struct {
		id  uint16
		val LVal
	}
	dirs := map[string][]ent{}
	sizes := map[string]int{"ascii": 9, "date": 20, "date11": 11, "zone": 7, "subsec": 7, "rat": 8, "srat": 8, "rat3": 24, "rat4": 32}
	for _, d := range []string{"IFD0", "Exif", "GPS"} {
		seen := map[uint16]bool{}
		var classes []string
		for c := range catalog[d] {
			classes = append(classes, c)
		}
		sortStrings(classes)
		for _, c := range classes {
			for _, s := range catalog[d][c] {
				if seen[s.id] {
					continue
				}
				seen[s.id] = true
				sz := sizes[c]
				if sz == 0 {
					sz = 4
				}
				v, _ := s.gen(rng, sz)
				dirs[d] = append(dirs[d], ent{s.id, v})
			}
		}
	}
	dirs["IFD0"] = append(dirs["IFD0"], ent{0x8769, LVal{Typ: tLong, Longs: []uint32{0}}}, ent{0x8825, LVal{Typ: tLong, Longs: []uint32{0}}})
	for d, want := range fill {
		for k := 0; len(dirs[d]) < want; k++ {
			dirs[d] = append(dirs[d], ent{uint16(0xC000 + k), LVal{Typ: tShort, Shorts: []uint16{uint16(k)}}})
		}
	}
	dirSize := func(d string) int {
		n := 2 + 12*len(dirs[d]) + 4
		for _, e := range dirs[d] {
			if e.val.Size() > 4 {
				n += e.val.Size()
			}
		}
		return n
	}
	at := map[string]int{"IFD0": ifd0At}
	at["Exif"] = at["IFD0"] + dirSize("IFD0")
	at["GPS"] = at["Exif"] + dirSize("Exif")
	buf := make([]byte, at["GPS"]+dirSize("GPS"))
	if order == "BE" {
		copy(buf, "MM\x00\x2a")
	} else {
		copy(buf, "II\x2a\x00")
	}
	bo.PutUint32(buf[4:], uint32(ifd0At))
	for i := 8; i < ifd0At; i++ {
		buf[i] = 0xEE
	}
	for _, d := range []string{"IFD0", "Exif", "GPS"} {
		p := at[d]
		bo.PutUint16(buf[p:], uint16(len(dirs[d])))
		vp := p + 2 + 12*len(dirs[d]) + 4
		p += 2
		for _, e := range dirs[d] {
			bo.PutUint16(buf[p:], e.id)
			bo.PutUint16(buf[p+2:], e.val.Typ)
			bo.PutUint32(buf[p+4:], e.val.Count())
			switch {
			case e.id == 0x8769:
				bo.PutUint32(buf[p+8:], uint32(at["Exif"]))
			case e.id == 0x8825:
				bo.PutUint32(buf[p+8:], uint32(at["GPS"]))
			case e.val.Size() <= 4:
				copy(buf[p+8:p+12], e.val.Encode(bo))
			default:
				bo.PutUint32(buf[p+8:], uint32(vp))
				copy(buf[vp:], e.val.Encode(bo))
				vp += e.val.Size()
			}
			p += 12
		}
	}
	return buf
}

func sortStrings(s []string) {
	for i := 1; i < len(s); i++ {
		for j := i; j > 0 && s[j] < s[j-1]; j-- {
			s[j], s[j-1] = s[j-1], s[j]
		}
	}
}

// AppendIFD1 chains a thumbnail directory (IFD1) behind a TIFF block whose IFD0 ends with a zero next pointer:
// the directory repeats tags of IFD0 with OTHER values (dimensions, orientation, compression, make), carries an
// out-of-line resolution and points at thumbnail data. A reader reports the primary image (IFD0), so the result
// must be the one of the block without IFD1. Returns nil if the block does not have the expected shape.
func AppendIFD1(t []byte, order string, ifd0At int) []byte {
	var bo binary.ByteOrder = binary.LittleEndian
	if order == "BE" {
		bo = binary.BigEndian
	}
	if ifd0At+2 > len(t) {
		return nil
	}
	n := int(bo.Uint16(t[ifd0At:]))
	np := ifd0At + 2 + 12*n
	if np+4 > len(t) || bo.Uint32(t[np:]) != 0 {
		return nil
	}
	out := append([]byte{}, t...)
	for len(out)%2 == 1 {
		out = append(out, 0xEE)
	}
	at := len(out)
	bo.PutUint32(out[np:], uint32(at))
	ent := func(id, typ uint16, cnt, val uint32, short bool) {
		e := make([]byte, 12)
		bo.PutUint16(e, id)
		bo.PutUint16(e[2:], typ)
		bo.PutUint32(e[4:], cnt)
		if short {
			bo.PutUint16(e[8:], uint16(val))
		} else {
			bo.PutUint32(e[8:], val)
		}
		out = append(out, e...)
	}
	const cnt = 8
	vals := at + 2 + 12*cnt + 4
	c := make([]byte, 2)
	bo.PutUint16(c, cnt)
	out = append(out, c...)
	ent(0x0100, 3, 1, 160, true)              // ImageWidth of the thumbnail
	ent(0x0101, 3, 1, 120, true)              // ImageLength
	ent(0x0103, 3, 1, 6, true)                // Compression: JPEG
	ent(0x010f, 2, 12, uint32(vals), false)   // Make (another one)
	ent(0x0112, 3, 1, 3, true)                // Orientation (another one)
	ent(0x011a, 5, 1, uint32(vals+12), false) // XResolution
	ent(0x0201, 4, 1, uint32(vals+20), false) // JPEGInterchangeFormat
	ent(0x0202, 4, 1, 40, false)              // JPEGInterchangeFormatLength
	out = append(out, 0, 0, 0, 0)
	out = append(out, "ThumbMaker \x00"...)
	r := make([]byte, 8)
	bo.PutUint32(r, 72)
	bo.PutUint32(r[4:], 1)
	out = append(out, r...)
	out = append(out, 0xFF, 0xD8)
	for i := 0; i < 36; i++ {
		out = append(out, byte(0x30+i))
	}
	return append(out, 0xFF, 0xD9)
}
