// Package gen holds the concretisers: abstract cases chosen by TLC become real bytes.
// They are written from the file-format documents, not from the library.
package gen

import "math/rand"

// SymBytes maps a sequence over the TIFF-search alphabet to bytes.
// "X" becomes a seeded byte outside the alphabet {0x49,0x4d,0x2a,0x00}.
func SymBytes(syms []string, rng *rand.Rand) []byte {
	out := make([]byte, len(syms))
	for i, s := range syms {
		switch s {
		case "I":
			out[i] = 0x49
		case "M":
			out[i] = 0x4d
		case "S":
			out[i] = 0x2a
		case "Z":
			out[i] = 0x00
		default:
			out[i] = OtherByte(rng)
		}
	}
	return out
}

// OtherByte returns a byte that is not in the signature alphabet.
func OtherByte(rng *rand.Rand) byte {
	for {
		b := byte(rng.Intn(256))
		if b != 0x49 && b != 0x4d && b != 0x2a && b != 0x00 {
			return b
		}
	}
}

// BytesSym classifies bytes into the TIFF-search alphabet (for closed traces of arbitrary input).
func BytesSym(b []byte) []string {
	out := make([]string, len(b))
	for i, c := range b {
		switch c {
		case 0x49:
			out[i] = "I"
		case 0x4d:
			out[i] = "M"
		case 0x2a:
			out[i] = "S"
		case 0x00:
			out[i] = "Z"
		default:
			out[i] = "X"
		}
	}
	return out
}
