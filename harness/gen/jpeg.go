package gen

import (
	"encoding/binary"
	"math/rand"
)

// JSeg is one abstract JPEG segment as chosen by the Jpeg specification.
type JSeg struct {
	Mk   string `json:"mk"`
	Cls  string `json:"cls"`
	Plen int    `json:"plen"`
	BO   string `json:"bo"`
	Ifd0 int    `json:"ifd0"`
}

var jpegMarker = map[string]byte{"APP0": 0xE0, "APP1": 0xE1, "APP2": 0xE2, "APP13": 0xED, "APP14": 0xEE,
	"COM": 0xFE, "DRI": 0xDD, "SOF0": 0xC0, "SOF2": 0xC2, "DHT": 0xC4, "DQT": 0xDB}

const (
	exifPrefix   = "Exif\x00\x00"
	xmpPrefix    = "http://ns.adobe.com/xap/1.0/\x00"
	xmpExtPrefix = "http://ns.adobe.com/xmp/extension/\x00"
)

// payload builds plen payload bytes of the given class. noFF forbids 0xFF bytes
// (used when the model assumes the only 0xFF bytes are marker starts).
// embed, if non-nil, supplies the TIFF bytes of an Exif payload (len must be plen-6).
func jpegPayload(s JSeg, rng *rand.Rand, noFF bool, embed []byte) []byte {
	p := make([]byte, s.Plen)
	for i := range p {
		p[i] = byte(rng.Intn(256))
	}
	put := func(at int, b []byte) {
		if at+len(b) <= len(p) {
			copy(p[at:], b)
		}
	}
	switch s.Cls {
	case "jfif":
		put(0, []byte("JFIF\x00\x01\x02"))
	case "exif":
		put(0, []byte(exifPrefix))
		if embed != nil {
			put(6, embed)
		} else {
			hdr := make([]byte, 8)
			if s.BO == "BE" {
				copy(hdr, "MM\x00\x2a")
				binary.BigEndian.PutUint32(hdr[4:], uint32(s.Ifd0))
			} else {
				copy(hdr, "II\x2a\x00")
				binary.LittleEndian.PutUint32(hdr[4:], uint32(s.Ifd0))
			}
			put(6, hdr)
		}
	case "nearexif":
		put(0, []byte("Exif\x00\x01II\x2a\x00\x08\x00\x00\x00"))
	case "xmp":
		put(0, []byte(xmpPrefix))
		for i := len(xmpPrefix); i < len(p); i++ {
			p[i] = byte(0x20 + rng.Intn(0x5f))
		}
	case "nearxmp":
		put(0, []byte("http://ns.adobe.com/xap/1.1/\x00"))
	case "xmpext":
		put(0, []byte(xmpExtPrefix))
	case "ff":
		for i := range p {
			if rng.Intn(2) == 0 {
				p[i] = 0xFF
			}
		}
		if len(p) > 0 {
			p[rng.Intn(len(p))] = 0xFF
		}
	case "nested":
		// a complete little JPEG inside the payload: SOI, APP1 Exif, DQT, EOI
		put(len(p)/4, []byte{0xFF, 0xD8, 0xFF, 0xE1, 0x00, 0x10, 'E', 'x', 'i', 'f', 0, 0, 'I', 'I', 0x2a, 0, 8, 0, 0, 0, 0xFF, 0xDB, 0x00, 0x04, 1, 2, 0xFF, 0xD9})
	case "opaque":
		if s.Mk == "SOF0" || s.Mk == "SOF2" {
			put(0, []byte{8, 0x01, 0x00, 0x02, 0x00, 3})
		}
	}
	if noFF {
		for i := range p {
			if p[i] == 0xFF {
				p[i] = 0x7F
			}
		}
	}
	return p
}

// BuildJPEG concretises an abstract marker stream: lead ("soi" | "none" | "soi_eoi"),
// the segments (the last one is the DQT segment) and 64 bytes of image data.
// embeds[i], when present, is the TIFF payload to place in Exif segment i.
func BuildJPEG(lead string, segs []JSeg, rng *rand.Rand, embeds map[int][]byte) []byte {
	var out []byte
	switch lead {
	case "soi":
		out = append(out, 0xFF, 0xD8)
	case "soi_eoi":
		out = append(out, 0xFF, 0xD8, 0xFF, 0xD9)
	}
	noFF := lead != "soi"
	for i, s := range segs {
		out = append(out, 0xFF, jpegMarker[s.Mk])
		out = append(out, byte((s.Plen+2)>>8), byte(s.Plen+2))
		pl := jpegPayload(s, rng, noFF, embeds[i])
		if noFF && byte(s.Plen+2) == 0xFF && len(pl) > 0 && pl[0] >= 0xC0 {
			pl[0] = 0x00 // the length field ends in 0xFF: keep (0xFF, payload[0]) from forming a marker outside an image
		}
		out = append(out, pl...)
	}
	for i := 0; i < 64; i++ {
		b := byte(rng.Intn(256))
		if noFF && b == 0xFF {
			b = 0
		}
		out = append(out, b)
	}
	return out
}
