package gen

import (
	"fmt"
	"math/rand"
	"strings"
)

// XItem is one simple property of an abstract XMP packet (see spec/Xmp.tla).
type XItem struct {
	P    string `json:"p"`
	Form string `json:"form"`
	Q    string `json:"q"`
	V    int    `json:"v"`
	WS   string `json:"ws"`
	C    string `json:"c"` // content class of a text value: "" / "plain" | "oq" (holds the other quote character)
}

var xmpNS = map[string]string{
	"tiff": "http://ns.adobe.com/tiff/1.0/", "exif": "http://ns.adobe.com/exif/1.0/", "aux": "http://ns.adobe.com/exif/1.0/aux/",
	"xmp": "http://ns.adobe.com/xap/1.0/", "xmpMM": "http://ns.adobe.com/xap/1.0/mm/", "dc": "http://purl.org/dc/elements/1.1/",
	"crs": "http://ns.adobe.com/camera-raw-settings/1.0/", "xap": "http://ns.adobe.com/xap/1.0/", "xapMM": "http://ns.adobe.com/xap/1.0/mm/",
	"photoshop": "http://ns.adobe.com/photoshop/1.0/", "lr": "http://ns.adobe.com/lightroom/1.0/",
}

func xmpText(rng *rand.Rand, n int) string {
	const al = "abcdefghijklmnopqrstuvwxyzABCDEFGHIJKLMNOPQRSTUVWXYZ0123456789-_.,:;/()+*#@!?=[]{}|~"
	b := make([]byte, n)
	for i := range b {
		b[i] = al[rng.Intn(len(al))]
		if i > 0 && i < n-1 && rng.Intn(9) == 0 {
			b[i] = ' '
		}
	}
	return string(b)
}

// natural values of the fixed-type properties: text written, and the typed value a correct parser reports
func xmpFixed(p string, rng *rand.Rand) (text string, want interface{}) {
	switch p {
	case "tiff:Orientation":
		v := 1 + rng.Intn(8)
		return fmt.Sprint(v), float64(v)
	case "tiff:ImageWidth", "tiff:ImageLength":
		v := 1 + rng.Intn(65535)
		return fmt.Sprint(v), float64(v)
	case "exif:PixelXDimension", "exif:PixelYDimension", "aux:LensID":
		v := 1 + rng.Intn(1<<30)
		return fmt.Sprint(v), float64(v)
	case "aux:ImageNumber":
		v := 1 + rng.Intn(65535)
		return fmt.Sprint(v), float64(v)
	case "exif:ExposureTime", "exif:FNumber", "exif:FocalLength", "exif:SubjectDistance":
		n, d := 1+rng.Intn(5000), 1+rng.Intn(5000)
		return fmt.Sprintf("%d/%d", n, d), float64(float32(n) / float32(d))
	case "xmp:Rating":
		v := rng.Intn(6)
		if v == 0 {
			v = 5
		}
		return fmt.Sprint(v), float64(v)
	case "exif:MeteringMode":
		v := []int{1, 2, 3, 4, 5, 6, 255}[rng.Intn(7)]
		return fmt.Sprint(v), float64(v)
	case "exif:ExposureProgram":
		v := 1 + rng.Intn(9)
		return fmt.Sprint(v), float64(v)
	case "exif:ExposureMode":
		v := 1 + rng.Intn(2)
		return fmt.Sprint(v), float64(v)
	case "exif:ExposureBiasValue", "aux:FlashCompensation":
		n, d := rng.Intn(250)-125, 1+rng.Intn(120)
		if n == 0 {
			n = 1
		}
		s := fmt.Sprintf("%d/%d", n, d)
		if n > 0 {
			s = "+" + s
		}
		return s, float64(int16(n)<<8 + int16(d))
	case "exif:GPSLatitude", "exif:GPSLongitude", "exif:GPSAltitude":
		v := float64(rng.Intn(18000)-9000) / 100
		if p == "exif:GPSAltitude" {
			return fmt.Sprintf("%.2f", v), float64(float32(v))
		}
		return fmt.Sprintf("%.2f", v), v
	case "xmp:CreateDate", "xmp:ModifyDate", "xmp:MetadataDate", "exif:DateTimeOriginal":
		y, mo, d, h, mi, s := 1990+rng.Intn(60), 1+rng.Intn(12), 1+rng.Intn(28), rng.Intn(24), rng.Intn(60), rng.Intn(60)
		// XMP date: seconds with a fraction of 0, 1, 2, 3 or 6 digits, and no zone designator, Z, or +hh:mm / -hh:mm
		fd := []int{0, 1, 2, 3, 6}[rng.Intn(5)]
		frac, nanos := "", 0
		if fd > 0 {
			v := rng.Intn(pow10(fd))
			frac = fmt.Sprintf(".%0*d", fd, v)
			nanos = v * pow10(9-fd)
		}
		zone, off := "", 0
		switch rng.Intn(3) {
		case 0:
			zh, zm := rng.Intn(13), []int{0, 30, 45}[rng.Intn(3)]
			sign, sc := 1, "+"
			if rng.Intn(2) == 0 {
				sign, sc = -1, "-"
			}
			zone, off = fmt.Sprintf("%s%02d:%02d", sc, zh, zm), sign*(zh*3600+zm*60)
		case 1:
			zone = "Z"
		}
		return fmt.Sprintf("%04d-%02d-%02dT%02d:%02d:%02d%s%s", y, mo, d, h, mi, s, frac, zone),
			fmt.Sprintf("%04d-%02d-%02dT%02d:%02d:%02d.%09d|%d", y, mo, d, h, mi, s, nanos, off)
	case "xmpMM:DocumentID", "xmpMM:InstanceID", "xmpMM:OriginalDocumentID":
		u := make([]byte, 16)
		rng.Read(u)
		h := fmt.Sprintf("%x", u)
		canon := h[:8] + "-" + h[8:12] + "-" + h[12:16] + "-" + h[16:20] + "-" + h[20:]
		switch rng.Intn(5) {
		case 0:
			return "xmp.did:" + canon, h
		case 1:
			return "uuid:" + strings.ToUpper(h), h
		case 2:
			return h, h // identifiers without a prefix, as older writers stored them
		case 3:
			return canon, h
		}
		return "xmp.iid:" + canon, h
	}
	return "1", float64(1)
}

func pow10(n int) int {
	p := 1
	for i := 0; i < n; i++ {
		p *= 10
	}
	return p
}

// XMPPacket is a concretised packet with the record a correct parser reports.
type XMPPacket struct {
	Data   []byte
	Expect map[string]interface{} // property id -> string | float64 | []string
}

// BuildXMP serialises the items (attributes first) and appends array properties whose items must keep document order.
// upto limits the expected record to the first upto items (an error is expected at item upto+1); -1 = all.
func BuildXMP(items []XItem, rng *rand.Rand, junk int, arrays bool) XMPPacket {
	exp := map[string]interface{}{}
	var sb strings.Builder
	for i := 0; i < junk; i++ {
		sb.WriteByte("xyz <a> b\n"[i%10])
	}
	sb.WriteString(`<?xpacket begin="" id="W5M0MpCehiHzreSzNTczkc9d"?>` + "\n" + `<x:xmpmeta xmlns:x="adobe:ns:meta/" x:xmptk="verif 1.0">` + "\n" + ` <rdf:RDF xmlns:rdf="http://www.w3.org/1999/02/22-rdf-syntax-ns#">` + "\n" + `  <rdf:Description`)
	// white space between the tag name and its first attribute varies like the white space between attributes
	first := "sp"
	if len(items) > 0 {
		first = items[len(items)-1].WS
	}
	switch first {
	case "nl":
		sb.WriteString("\n")
	case "nlsp":
		sb.WriteString("\n   ")
	default:
		sb.WriteString(" ")
	}
	sb.WriteString(`rdf:about=""`)
	used := map[string]bool{}
	for _, it := range items {
		used[strings.SplitN(it.P, ":", 2)[0]] = true
	}
	if arrays {
		used["dc"] = true
	}
	for _, ns := range []string{"tiff", "exif", "aux", "xmp", "xmpMM", "dc", "crs"} {
		if used[ns] {
			sb.WriteString("\n    xmlns:" + ns + `="` + xmpNS[ns] + `"`)
		}
	}
	ws := func(k string) string {
		switch k {
		case "nl":
			return "\n"
		case "nlsp":
			return "\n   "
		case "sp3":
			return "   "
		case "run126":
			return strings.Repeat(" ", 126)
		case "run127":
			return strings.Repeat(" ", 126) + "\n"
		case "run300":
			return strings.Repeat(" ", 150) + "\n" + strings.Repeat(" ", 149)
		}
		return " "
	}
	val := func(it XItem) string {
		if it.V == 0 {
			t, w := xmpFixed(it.P, rng)
			exp[it.P] = w
			return t
		}
		t := xmpText(rng, it.V)
		if it.C == "oq" && it.V >= 3 {
			// the quote character that does not delimit this value (both of them in an element)
			b := []byte(t)
			other := byte('\'')
			if it.Form == "attr" && it.Q == "sq" {
				other = '"'
			}
			b[1+rng.Intn(len(b)-2)] = other
			if it.Form != "attr" && len(b) >= 5 {
				b[len(b)-2] = '"'
			}
			t = string(b)
		}
		exp[it.P] = t
		return t
	}
	var elems []XItem
	for _, it := range items {
		if it.Form != "attr" {
			elems = append(elems, it)
			continue
		}
		q := `"`
		if it.Q == "sq" {
			q = `'`
		}
		sb.WriteString(ws(it.WS) + it.P + "=" + q + val(it) + q)
	}
	sb.WriteString(">")
	for _, it := range elems {
		sb.WriteString(ws(it.WS) + "<" + it.P + ">" + val(it) + "</" + it.P + ">")
	}
	if arrays {
		for _, a := range []struct{ p, kind string }{{"dc:creator", "Seq"}, {"dc:subject", "Bag"}} {
			n := rng.Intn(5)
			var vals []string
			// the white space between the array's tags follows the record's white-space class (long runs included)
			sep := "\n     "
			if len(items) > 0 && strings.HasPrefix(items[0].WS, "run") {
				sep = ws(items[0].WS)
			}
			sb.WriteString("\n   <" + a.p + ">" + sep + "<rdf:" + a.kind + ">")
			for i := 0; i < n; i++ {
				v := xmpText(rng, 1+rng.Intn(40))
				vals = append(vals, v)
				sb.WriteString(sep + "<rdf:li>" + v + "</rdf:li>")
			}
			sb.WriteString(sep + "</rdf:" + a.kind + ">" + sep + "</" + a.p + ">")
			if vals == nil {
				vals = []string{}
			}
			exp[a.p] = vals
		}
	}
	sb.WriteString("\n  </rdf:Description>\n </rdf:RDF>\n</x:xmpmeta>\n<?xpacket end=\"w\"?>")
	return XMPPacket{Data: []byte(sb.String()), Expect: exp}
}
