package gen

import (
	"bytes"
	"encoding/binary"
	"fmt"
	"strings"
)

// BuildScaled concretises one case of Scale.tla: n repetitions of a unit (size in units of 16 bytes for
// long tokens) inside a small well-formed file of the family. Every field of the file tells the truth.
// Returns the bytes and the container kind ("" if the unit is unknown).
func BuildScaled(fam, unit string, size, n int, tiff []byte) ([]byte, string) {
	L := size * 16
	be := binary.BigEndian
	switch fam + "/" + unit {
	// ---- XMP ----
	case "xmp/elemValue", "xmp/attrValue", "xmp/ws", "xmp/junk", "xmp/tagName", "xmp/unknownProp", "xmp/li", "xmp/knownProp":
		var b strings.Builder
		if unit == "junk" {
			b.WriteString(strings.Repeat("junk without the opening angle bracket. ", L/40+1)[:L])
		}
		b.WriteString(`<x:xmpmeta xmlns:x="adobe:ns:meta/"><rdf:RDF xmlns:rdf="http://www.w3.org/1999/02/22-rdf-syntax-ns#"><rdf:Description rdf:about="" xmlns:tiff="http://ns.adobe.com/tiff/1.0/" xmlns:dc="http://purl.org/dc/elements/1.1/" xmlns:xx="http://example.org/xx/"`)
		switch unit {
		case "attrValue":
			b.WriteString(` tiff:Model="m" tiff:Make="` + strings.Repeat("v", L) + `"`)
		case "ws":
			b.WriteString(` tiff:Model="m"` + strings.Repeat(" ", L) + `tiff:Make="k"`)
		default:
			b.WriteString(` tiff:Model="m"`)
		}
		b.WriteString(">")
		switch unit {
		case "elemValue":
			b.WriteString("<tiff:Make>" + strings.Repeat("v", L) + "</tiff:Make>")
		case "tagName":
			nm := "xx:" + strings.Repeat("n", L)
			b.WriteString("<" + nm + ">1</" + nm + ">")
		case "unknownProp":
			for i := 0; i < n; i++ {
				b.WriteString("<xx:p>value " + fmt.Sprint(i%10) + "</xx:p>\n")
			}
		case "knownProp":
			for i := 0; i < n; i++ {
				b.WriteString("<tiff:Software>value " + fmt.Sprint(i%10) + "</tiff:Software>\n")
			}
		case "li":
			b.WriteString("<dc:subject><rdf:Bag>")
			for i := 0; i < n; i++ {
				b.WriteString("<rdf:li>word" + fmt.Sprint(i%10) + "</rdf:li>\n")
			}
			b.WriteString("</rdf:Bag></dc:subject>")
		}
		b.WriteString("</rdf:Description></rdf:RDF></x:xmpmeta>")
		return []byte(b.String()), "xmp"
	// ---- ISOBMFF ----
	case "bmff/infeV0", "bmff/infeV2", "bmff/ilocItem":
		ftyp := Ftyp("avif", "mif1", "avif")
		hdlr := FullBox("hdlr", 0, 0, u32(0), []byte("pict"), make([]byte, 12), []byte{0})
		pitm := FullBox("pitm", 0, 0, u16(1))
		var boxes []byte
		if unit == "ilocItem" {
			cnt := n
			if cnt > 65535 {
				cnt = 65535
			}
			iinf := FullBox("iinf", 0, 0, u16(1), FullBox("infe", 2, 0, u16(1), u16(0), []byte("av01"), []byte{0}))
			var items []byte
			for i := 0; i < cnt; i++ {
				items = append(items, u16(i+1)...)
				items = append(items, u16(0)...)
				items = append(items, u16(1)...)
				items = append(items, u32(0)...)
				items = append(items, u32(0)...)
			}
			boxes = append(iinf, FullBox("iloc", 0, 0, []byte{0x44, 0x00}, u16(cnt), items)...)
		} else {
			left := n
			for left > 0 {
				k := left
				if k > 200 { // an iinf box is parsed from one 4 KiB look-ahead
					k = 200
				}
				var es []byte
				for i := 0; i < k; i++ {
					if unit == "infeV0" {
						es = append(es, FullBox("infe", byte(i%2), 0, u16(i+1), u16(0))...) // versions 0 and 1 (the smallest entry a reader has to step over)
					} else {
						es = append(es, FullBox("infe", 2, 0, u16(i+1), u16(0), []byte("hvc1"), []byte{0})...)
					}
				}
				boxes = append(boxes, FullBox("iinf", 0, 0, u16(k), es)...)
				left -= k
			}
		}
		meta := FullBox("meta", 0, 0, hdlr, pitm, boxes)
		out := append(ftyp, meta...)
		out = append(out, Box("mdat", make([]byte, 64))...)
		return out, "avif"
	case "bmff/ilocMax", "bmff/iinfMax":
		ftyp := Ftyp("avif", "mif1", "avif")
		hdlr := FullBox("hdlr", 0, 0, u32(0), []byte("pict"), make([]byte, 12), []byte{0})
		pitm := FullBox("pitm", 0, 0, u16(1))
		var boxes []byte
		for i := 0; i < n; i++ {
			if unit == "ilocMax" {
				boxes = append(boxes, FullBox("iloc", 0, 0, []byte{0x44, 0x00}, u16(65535))...)
			} else {
				boxes = append(boxes, FullBox("iinf", 0, 0, u16(65535))...)
			}
		}
		out := append(ftyp, FullBox("meta", 0, 0, hdlr, pitm, boxes)...)
		return append(out, Box("mdat", make([]byte, 64))...), "avif"
	case "bmff/cmtAscii4097":
		// n CMT1 boxes; each holds a directory of 84 text entries (Artist, Copyright, Software, ImageDescription, Make, Model in turn)
		// that all declare 4097 bytes (overlapping values inside the box)
		le := binary.LittleEndian
		dir := []byte("II*\x00\x08\x00\x00\x00")
		dir = append(dir, 84, 0)
		ids := []uint16{0x010e, 0x010f, 0x0110, 0x0131, 0x013b, 0x8298}
		for i := 0; i < 84; i++ {
			e := make([]byte, 12)
			le.PutUint16(e, ids[i%len(ids)])
			le.PutUint16(e[2:], 2)
			le.PutUint32(e[4:], 4097)
			le.PutUint32(e[8:], uint32(1030+i)) // overlapping values, all inside the box
			dir = append(dir, e...)
		}
		dir = append(dir, 0, 0, 0, 0)
		dir = append(dir, bytes.Repeat([]byte("v"), 5300-len(dir))...)
		out := Ftyp("crx ", "crx ", "isom")
		var meta []byte
		meta = append(meta, CR3MetaUUID...)
		meta = append(meta, Box("CNCV", []byte("CanonCR3_001/00.09.00/00.00.00"))...)
		for i := 0; i < n; i++ {
			meta = append(meta, Box("CMT1", dir)...)
		}
		out = append(out, Box("moov", Box("uuid", meta))...)
		return append(out, Box("mdat", make([]byte, 64))...), "cr3"
	case "bmff/cmtTiny", "bmff/preview":
		out := Ftyp("crx ", "crx ", "isom")
		var meta []byte
		meta = append(meta, CR3MetaUUID...)
		meta = append(meta, Box("CNCV", []byte("CanonCR3_001/00.09.00/00.00.00"))...)
		if unit == "cmtTiny" {
			tiny := Box("CMT1", []byte("II*\x00\x08\x00\x00\x00\x00\x00\x00\x00\x00\x00\x00\x00"))
			meta = append(meta, bytes.Repeat(tiny, n)...)
		} else {
			meta = append(meta, Box("CMT1", tiff)...)
		}
		out = append(out, Box("moov", Box("uuid", meta))...)
		out = append(out, Box("uuid", CR3XPacketUUID, []byte("<?xpacket begin='' id='W5M0MpCehiHzreSzNTczkc9d'?><x:xmpmeta xmlns:x=\"adobe:ns:meta/\"></x:xmpmeta><?xpacket end='w'?>"))...)
		if unit == "preview" {
			jpg := append([]byte{0xFF, 0xD8}, bytes.Repeat([]byte{0x5A}, L-4)...)
			jpg = append(jpg, 0xFF, 0xD9)
			out = append(out, Box("uuid", CR3PreviewUUID, []byte{0, 0, 0, 0, 0, 0, 0, 1}, PRVWBox(jpg, 1620, 1080))...)
		}
		return append(out, Box("mdat", make([]byte, 64))...), "cr3"
	case "bmff/topFree", "bmff/moovKid", "bmff/bigFree", "bmff/bigCmt":
		out := Ftyp("crx ", "crx ", "isom")
		free := Box("free", make([]byte, 8))
		var meta []byte
		meta = append(meta, CR3MetaUUID...)
		meta = append(meta, Box("CNCV", []byte("CanonCR3_001/00.09.00/00.00.00"))...)
		cmt := tiff
		if unit == "bigCmt" {
			cmt = append(append([]byte{}, tiff...), make([]byte, L)...)
		}
		var kids []byte
		switch unit {
		case "moovKid":
			kids = bytes.Repeat(free, n)
		case "bigFree":
			kids = Box("free", make([]byte, L))
		}
		meta = append(meta, Box("CMT1", cmt)...)
		moov := Box("moov", kids, Box("uuid", meta))
		if unit == "topFree" {
			out = append(out, bytes.Repeat(free, n)...)
		}
		out = append(out, moov...)
		out = append(out, Box("uuid", CR3XPacketUUID, []byte("<?xpacket begin='' id='W5M0MpCehiHzreSzNTczkc9d'?><x:xmpmeta xmlns:x=\"adobe:ns:meta/\"></x:xmpmeta><?xpacket end='w'?>"))...)
		out = append(out, Box("mdat", make([]byte, 64))...)
		return out, "cr3"
	// ---- TIFF ----
	case "tiff/entry", "tiff/ifdChain", "tiff/oolValue", "tiff/asciiValue", "tiff/subIfd", "tiff/longArray", "tiff/byteArray":
		le := binary.LittleEndian
		out := []byte("II*\x00\x08\x00\x00\x00")
		ent := func(id, typ uint16, cnt, val uint32) []byte {
			e := make([]byte, 12)
			le.PutUint16(e, id)
			le.PutUint16(e[2:], typ)
			le.PutUint32(e[4:], cnt)
			le.PutUint32(e[8:], val)
			return e
		}
		u16l := func(v int) []byte { b := make([]byte, 2); le.PutUint16(b, uint16(v)); return b }
		u32l := func(v int) []byte { b := make([]byte, 4); le.PutUint32(b, uint32(v)); return b }
		switch unit {
		case "entry":
			cnt := n
			if cnt > 65535 {
				cnt = 65535
			}
			out = append(out, u16l(cnt)...)
			for i := 0; i < cnt; i++ {
				out = append(out, ent(0x0128, 3, 1, 2)...) // ResolutionUnit: a foreign embedded tag
			}
			out = append(out, u32l(0)...)
		case "oolValue":
			cnt := n
			if cnt > 65535 {
				cnt = 65535
			}
			vals := 8 + 2 + 12*cnt + 4
			out = append(out, u16l(cnt)...)
			ids := []uint16{0x010e, 0x010f, 0x0110, 0x0131, 0x013b, 0x8298} // ImageDescription, Make, Model, Software, Artist, Copyright: values the reader fetches
			for i := 0; i < cnt; i++ {
				out = append(out, ent(ids[i%len(ids)], 2, 8, uint32(vals+8*i))...)
			}
			out = append(out, u32l(0)...)
			for i := 0; i < cnt; i++ {
				out = append(out, 'v', 'a', 'l', 'u', 'e', byte('0'+i%10), ' ', 0)
			}
		case "ifdChain":
			for i := 0; i < n; i++ {
				at := len(out)
				out = append(out, u16l(1)...)
				out = append(out, ent(0x0112, 3, 1, 6)...)
				next := at + 18
				if i == n-1 {
					next = 0
				}
				out = append(out, u32l(next)...)
			}
		case "subIfd":
			// IFD0: SubIFDs (LONG[n], out of line) -> n directories of one entry each
			cnt := n
			arr := 8 + 2 + 12 + 4
			dirs := arr + 4*cnt
			out = append(out, u16l(1)...)
			if cnt == 1 {
				out = append(out, ent(0x014a, 4, 1, uint32(dirs))...)
			} else {
				out = append(out, ent(0x014a, 4, uint32(cnt), uint32(arr))...)
			}
			out = append(out, u32l(0)...)
			for i := 0; i < cnt; i++ {
				out = append(out, u32l(dirs+18*i)...)
			}
			for i := 0; i < cnt; i++ {
				out = append(out, u16l(1)...)
				out = append(out, ent(0x0100, 3, 1, 640)...)
				out = append(out, u32l(0)...)
			}
		case "longArray":
			// StripOffsets LONG[n], StripByteCounts LONG[n] in IFD0; ISOSpeedRatings SHORT[n] in the Exif directory
			cnt := n
			if cnt < 2 {
				cnt = 2
			}
			a1 := 8 + 2 + 36 + 4
			a2 := a1 + 4*cnt
			exif := a2 + 4*cnt
			iso := exif + 2 + 12 + 4
			out = append(out, u16l(3)...)
			out = append(out, ent(0x0111, 4, uint32(cnt), uint32(a1))...)
			out = append(out, ent(0x0117, 4, uint32(cnt), uint32(a2))...)
			out = append(out, ent(0x8769, 4, 1, uint32(exif))...)
			out = append(out, u32l(0)...)
			for i := 0; i < 2*cnt; i++ {
				out = append(out, u32l(1000+i)...)
			}
			out = append(out, u16l(1)...)
			out = append(out, ent(0x8827, 3, uint32(cnt), uint32(iso))...)
			out = append(out, u32l(0)...)
			for i := 0; i < cnt; i++ {
				out = append(out, u16l(100+i%3000)...)
			}
		case "byteArray":
			// Exif directory: MakerNote and UserComment, UNDEFINED[n*16]
			cnt := n * 16
			exif := 8 + 2 + 12 + 4
			mn := exif + 2 + 24 + 4
			out = append(out, u16l(1)...)
			out = append(out, ent(0x8769, 4, 1, uint32(exif))...)
			out = append(out, u32l(0)...)
			out = append(out, u16l(2)...)
			out = append(out, ent(0x927c, 7, uint32(cnt), uint32(mn))...)
			out = append(out, ent(0x9286, 7, uint32(cnt), uint32(mn+cnt))...)
			out = append(out, u32l(0)...)
			out = append(out, bytes.Repeat([]byte{0x41}, 2*cnt)...)
		case "asciiValue":
			out = append(out, u16l(2)...)
			out = append(out, ent(0x010f, 2, uint32(L), 8+2+24+4)...)
			out = append(out, ent(0x0112, 3, 1, 6)...)
			out = append(out, u32l(0)...)
			out = append(out, bytes.Repeat([]byte("v"), L-1)...)
			out = append(out, 0)
		}
		return append(out, make([]byte, 64)...), "tiff"
	// ---- JPEG ----
	case "jpeg/app", "jpeg/exifSeg", "jpeg/com64k":
		out := []byte{0xFF, 0xD8}
		seg := func(m byte, p []byte) {
			out = append(out, 0xFF, m, byte((len(p)+2)>>8), byte(len(p)+2))
			out = append(out, p...)
		}
		small := append([]byte("Exif\x00\x00"), tiff...)
		if len(small) > 60000 {
			small = small[:60000]
		}
		switch unit {
		case "app":
			for i := 0; i < n; i++ {
				seg(0xE2, []byte("ICC_PROFILE\x00"))
			}
			seg(0xE1, small)
		case "exifSeg":
			for i := 0; i < n; i++ {
				seg(0xE1, small)
			}
		case "com64k":
			for i := 0; i < n; i++ {
				seg(0xFE, bytes.Repeat([]byte("c"), 65533))
			}
			seg(0xE1, small)
		}
		seg(0xDB, make([]byte, 65))
		seg(0xDA, []byte{3, 1, 0, 2, 0x11, 3, 0x11, 0, 0x3f, 0})
		out = append(out, make([]byte, 64)...)
		return append(out, 0xFF, 0xD9), "jpeg"
	// ---- PNG ----
	case "png/chunk":
		out := []byte("\x89PNG\r\n\x1a\n")
		out = append(out, pngChunk("IHDR", []byte{0, 0, 0, 16, 0, 0, 0, 16, 8, 2, 0, 0, 0})...)
		c := pngChunk("tEXt", []byte("k\x00v"))
		out = append(out, bytes.Repeat(c, n)...)
		out = append(out, pngChunk("eXIf", tiff)...)
		out = append(out, pngChunk("IEND", nil)...)
		return out, "png"
	}
	_ = be
	return nil, ""
}
