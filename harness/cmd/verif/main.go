// Command verif is the verification harness of /verif: driver and worker in one binary.
//
//	verif check <Cnn> [--tier quick|thorough] [--replay <file>]
//	verif worker <in> <out>          (internal)
package main

import (
	"encoding/json"
	"fmt"
	"os"
	"strconv"

	"verif/core"
	"verif/ops"
	"verif/props"
)

func main() {
	if len(os.Args) < 2 {
		usage()
	}
	switch os.Args[1] {
	case "worker":
		if len(os.Args) != 4 {
			usage()
		}
		os.Exit(ops.WorkerMain(os.Args[2], os.Args[3]))
	case "check":
		os.Exit(check(os.Args[2:]))
	case "list":
		for _, id := range props.IDs() {
			fmt.Println(id)
		}
	default:
		usage()
	}
}

func usage() {
	fmt.Fprintln(os.Stderr, "usage: verif check <Cnn> [--tier quick|thorough] [--replay file] | verif list")
	os.Exit(2)
}

func check(args []string) int {
	if len(args) < 1 {
		usage()
	}
	id := args[0]
	tier := os.Getenv("VERIF_TIER")
	replay := ""
	for i := 1; i < len(args); i++ {
		switch args[i] {
		case "--tier":
			i++
			tier = args[i]
		case "--replay":
			i++
			replay = args[i]
		}
	}
	if tier != "thorough" {
		tier = "quick"
	}
	seed := int64(1)
	if s := os.Getenv("VERIF_SEED"); s != "" {
		if v, err := strconv.ParseInt(s, 10, 64); err == nil {
			seed = v
		}
	}
	if replay != "" {
		return doReplay(id, replay)
	}
	d, ok := props.Get(id)
	if !ok {
		fmt.Fprintf(os.Stderr, "no check for property %s\n", id)
		return 2
	}
	r, err := core.NewRun(id, tier, seed)
	if err != nil {
		fmt.Fprintln(os.Stderr, err)
		return 2
	}
	d(r)
	return r.Finish()
}

// doReplay re-runs the single op stored in a replay file and prints the fresh observation
// next to the recorded one.
func doReplay(id, path string) int {
	b, err := os.ReadFile(path)
	if err != nil {
		fmt.Fprintln(os.Stderr, err)
		return 2
	}
	var rf struct {
		Property string `json:"property"`
		Key      string `json:"key"`
		What     string `json:"what"`
		Replay   struct {
			Op  *core.Op        `json:"op"`
			Ops []core.Op       `json:"ops"`
			Obs json.RawMessage `json:"observed"`
		} `json:"replay"`
	}
	if err := json.Unmarshal(b, &rf); err != nil {
		fmt.Fprintln(os.Stderr, err)
		return 2
	}
	opsList := rf.Replay.Ops
	if rf.Replay.Op != nil {
		opsList = append(opsList, *rf.Replay.Op)
	}
	if len(opsList) == 0 {
		fmt.Fprintln(os.Stderr, "replay file holds no op")
		return 2
	}
	obs, err := core.RunOps(opsList, core.WorkerOpts{OneProc: true})
	if err != nil {
		fmt.Fprintln(os.Stderr, err)
		return 2
	}
	fmt.Printf("property=%s key=%s\nwhat=%s\nrecorded: %s\n", rf.Property, rf.Key, rf.What, string(rf.Replay.Obs))
	for i := range obs {
		ob, _ := json.Marshal(obs[i])
		fmt.Printf("fresh[%d]: %s\n", i, string(ob))
	}
	return 0
}
