// Command probe runs one op kind on a file through the worker code and prints the observation (debug aid).
//
//	probe <kind> <file> [argsJSON]
package main

import (
	"encoding/json"
	"fmt"
	"os"

	"verif/core"
	"verif/ops"
)

func main() {
	data, err := os.ReadFile(os.Args[2])
	if err != nil {
		fmt.Println(err)
		os.Exit(2)
	}
	op := core.Op{Kind: os.Args[1], Data: data, Cut: -1}
	if len(os.Args) > 3 {
		op.Args = json.RawMessage(os.Args[3])
	}
	if len(os.Args) > 4 {
		op.Trace = true
	}
	o := ops.ExecOp(&op)
	b, _ := json.MarshalIndent(o, "", " ")
	fmt.Println(string(b))
}
