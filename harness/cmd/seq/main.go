// Command seq replays the ops of a replay file one by one in this process, printing err per op (debug aid).
package main

import (
	"encoding/json"
	"fmt"
	"os"

	"verif/core"
	"verif/ops"
)

func main() {
	b, _ := os.ReadFile(os.Args[1])
	var rf struct {
		Replay struct {
			Ops []core.Op `json:"ops"`
		} `json:"replay"`
	}
	json.Unmarshal(b, &rf)
	skip := map[string]bool{}
	for _, a := range os.Args[2:] {
		skip[a] = true
	}
	for i := range rf.Replay.Ops {
		op := rf.Replay.Ops[i]
		if skip[fmt.Sprint(op.ID)] {
			continue
		}
		o := ops.ExecOp(&op)
		fmt.Println(op.ID, op.Kind, string(op.Args), "err=", o.Err, "panic=", o.Panic)
	}
}
