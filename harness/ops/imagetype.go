package ops

import (
	"bufio"
	"bytes"
	"errors"
	"io"

	"github.com/evanoberholster/imagemeta/imagetype"
	"verif/core"
)

// SniffR is what every sniffing entry point said about one header.
// Headers are processed in batches (Data = n*24 header bytes) to keep the op count low.
type SniffR struct {
	// per header: type index reported by Buf(h); and a bit mask of disagreements
	T   []uint8  `json:"t"`
	Bad []string `json:"bad,omitempty"` // "<index>:<what>" for every disagreement / contract breach
}

var brandSoup = []byte("heicavifmif1heixhevccrx msf1ftypCR\x02\x00II*\x00MM\x00*HEAPCCDR\x88\xe7\x74\xd8WEBP\xff\xd8\x89PNG\r\n\x1a\n")

func sniffAll(h []byte, idx int, suffix []byte, r *SniffR) uint8 {
	bad := func(s string) {
		if len(r.Bad) < 200 {
			r.Bad = append(r.Bad, itoa(idx)+":"+s)
		}
	}
	h = append(make([]byte, 0, len(h)), h...) // capacity = length (the batch array must not be readable behind the header)
	t0, e0 := imagetype.Buf(h)
	chk := func(name string, t imagetype.ImageType, err error) {
		if t != t0 {
			bad(name + " type " + t.String() + " != Buf(h) " + t0.String())
		}
		if (t0 == imagetype.ImageUnknown) != errors.Is(err, imagetype.ErrImageTypeNotFound) {
			bad(name + " 'not found' error mismatch")
		}
		if t0 != imagetype.ImageUnknown && err != nil {
			bad(name + " error for a known type: " + err.Error())
		}
	}
	chk("Buf(h)", t0, e0)
	full := append(append([]byte{}, h...), suffix...)
	t, e := imagetype.Buf(full)
	chk("Buf(h++s)", t, e)
	t, e = imagetype.Scan(bytes.NewReader(full))
	chk("Scan", t, e)
	br := bufio.NewReaderSize(bytes.NewReader(full), 64)
	t, e = imagetype.ScanBuf(br)
	chk("ScanBuf", t, e)
	// ScanBuf must not consume: the reader still yields the stream from byte 0
	got := make([]byte, len(full))
	n, _ := readFull(br, got)
	if n != len(full) || !bytes.Equal(got, full) {
		bad("ScanBuf consumed or altered the stream")
	}
	// Scan on a caller-owned bufio.Reader must not consume either
	br2 := bufio.NewReaderSize(bytes.NewReader(full), 32)
	t, e = imagetype.Scan(br2)
	chk("Scan(bufio)", t, e)
	if p, _ := br2.Peek(1); len(p) != 1 || p[0] != full[0] {
		bad("Scan(bufio) consumed the stream")
	}
	t, e = imagetype.ReadAt(bytes.NewReader(full))
	chk("ReadAt", t, e)
	// a reader that is not at the start of its underlying object (bytes already consumed, or a Seek to an embedded
	// image): the stream is what the reader delivers from HERE on, not what the object holds at offset 0
	pre := []byte("\xff\xd8\xff\xe1\x00\x10JFIF") // looks like another format
	br3 := bytes.NewReader(append(append([]byte{}, pre...), full...))
	br3.Seek(int64(len(pre)), io.SeekStart)
	t, e = imagetype.Scan(br3)
	chk("Scan(reader positioned behind other bytes)", t, e)
	// the same stream delivered in pieces (a Read may return fewer bytes than asked for) is the same stream
	t, e = imagetype.Scan(&pieceReader{b: full, first: 1, rest: 1})
	chk("Scan(one byte per Read)", t, e)
	t, e = imagetype.Scan(&pieceReader{b: full, first: 23, rest: 7})
	chk("Scan(23 bytes, then 7 per Read)", t, e)
	t, e = imagetype.ScanBuf(bufio.NewReaderSize(&pieceReader{b: full, first: 5, rest: 11}, 64))
	chk("ScanBuf(5 bytes, then 11 per Read)", t, e)
	return uint8(t0)
}

// pieceReader delivers b in pieces: `first` bytes by the first Read, `rest` bytes by each later one.
type pieceReader struct {
	b           []byte
	first, rest int
	n           int
}

func (p *pieceReader) Read(q []byte) (int, error) {
	if len(p.b) == 0 {
		return 0, io.EOF
	}
	k := p.rest
	if p.n == 0 {
		k = p.first
	}
	p.n++
	if k > len(q) {
		k = len(q)
	}
	if k > len(p.b) {
		k = len(p.b)
	}
	copy(q, p.b[:k])
	p.b = p.b[k:]
	return k, nil
}

func readFull(br *bufio.Reader, p []byte) (int, error) {
	n := 0
	for n < len(p) {
		m, err := br.Read(p[n:])
		n += m
		if err != nil {
			return n, err
		}
	}
	return n, nil
}

func itoa(i int) string {
	if i == 0 {
		return "0"
	}
	var b [12]byte
	p := len(b)
	for i > 0 {
		p--
		b[p] = byte('0' + i%10)
		i /= 10
	}
	return string(b[p:])
}

func init() {
	// sniff: Data = concatenated 24-byte headers
	Register("sniff", func(op *core.Op, obs *core.Obs) {
		var r SniffR
		n := len(op.Data) / 24
		for i := 0; i < n; i++ {
			h := op.Data[i*24 : i*24+24]
			var suffix []byte
			switch i % 3 {
			case 0:
				suffix = brandSoup[(i/3)%8*4:]
			case 1:
				suffix = nil
			default:
				suffix = bytes.Repeat([]byte{byte(i), byte(i >> 8), 0x49, 0x2a}, 1+i%9)
			}
			r.T = append(r.T, sniffAll(h, i, suffix, &r))
		}
		JSON(obs, r)
	})
	// sniffshort: every prefix shorter than 24 bytes must give an error and no type from all entry points
	Register("sniffshort", func(op *core.Op, obs *core.Obs) {
		var r SniffR
		for k := 0; k < 24 && k <= len(op.Data); k++ {
			b := op.Data[:k]
			idx := k
			bad := func(s string) { r.Bad = append(r.Bad, itoa(idx)+":"+s) }
			if t, e := imagetype.Buf(b); t != imagetype.ImageUnknown || e == nil {
				bad("Buf accepted a short header")
			}
			if t, e := imagetype.Scan(bytes.NewReader(b)); t != imagetype.ImageUnknown || e == nil {
				bad("Scan accepted a short stream")
			}
			if t, e := imagetype.ScanBuf(bufio.NewReader(bytes.NewReader(b))); t != imagetype.ImageUnknown || e == nil {
				bad("ScanBuf accepted a short stream")
			}
			if t, e := imagetype.ReadAt(bytes.NewReader(b)); t != imagetype.ImageUnknown || e == nil {
				bad("ReadAt accepted a short stream")
			}
		}
		JSON(obs, r)
	})
}
