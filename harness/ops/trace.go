package ops

import (
	"bytes"
	"encoding/json"
	"errors"
	"fmt"
	"io"
	"strings"
	"sync"

	"github.com/evanoberholster/imagemeta"
	"github.com/evanoberholster/imagemeta/exif2"
	"github.com/evanoberholster/imagemeta/isobmff"
	"github.com/evanoberholster/imagemeta/jpeg"
	"github.com/evanoberholster/imagemeta/verifhook"
	"github.com/rs/zerolog"
)

// Event is one hook event as recorded.
type Event struct {
	P string  `json:"p"`
	E string  `json:"e"`
	A []int64 `json:"a"`
}

var (
	trMu     sync.Mutex
	trEvents []json.RawMessage
	trOn     bool
	// progress watch: site -> last measure; a repeated measure at a loop head is a stall
	stallWatch map[string][2]int64
	// maxEvents bounds a single op's trace (a runaway loop is a stall, not an OOM). A scanner may emit one event for
	// every byte or two it steps over, so the bound grows with the input: 2,000,000 + 4 events per input byte.
	maxEvents = 2_000_000
)

func sink(pkg, ev string, a ...int64) {
	trMu.Lock()
	if !trOn {
		trMu.Unlock()
		return
	}
	trCount++
	if !trCountOnly {
		b, _ := json.Marshal(Event{P: pkg, E: ev, A: append([]int64{}, a...)})
		trEvents = append(trEvents, b)
	}
	n := trCount
	trMu.Unlock()
	if n > maxEvents {
		// remembered here as well: the library may recover the panic (ScanJPEG, ParseXmp do) and turn it into an error
		stalled = fmt.Sprintf("more than %d hook events (2,000,000 + 4 per input byte) in one call at %s.%s", maxEvents, pkg, ev)
		panic(stallPanic(stalled))
	}
}

// stalled is set when the event cap aborts a call (see sink).
var stalled string

var (
	trCount     int
	trCountOnly bool
)

func startTrace(countOnly bool, inputLen int) {
	trMu.Lock()
	maxEvents = 2_000_000 + 4*inputLen
	stalled = ""
	trCount, trCountOnly = 0, countOnly
	trEvents = nil
	trOn = true
	trMu.Unlock()
	verifhook.Sink = sink
}

func stopTrace() []json.RawMessage {
	trMu.Lock()
	defer trMu.Unlock()
	trOn = false
	ev := trEvents
	trEvents = nil
	return ev
}

var (
	defExif, defJpeg, defBmff zerolog.Logger
	savedDefaults             bool
	// LogBuf receives log output for the "buf" writer.
	LogBuf bytes.Buffer
)

type failWriter struct{}

func (failWriter) Write(p []byte) (int, error) { return 0, errors.New("verif: log writer fails") }

// setLevel configures the library logger: "" restores the default configuration,
// otherwise "<level>:<writer>" with writer in discard|buf|fail.
func setLevel(spec string) {
	if !savedDefaults {
		defExif, defJpeg, defBmff = exif2.Logger, jpeg.Logger, isobmff.Logger
		savedDefaults = true
	}
	if spec == "" {
		exif2.Logger, jpeg.Logger, isobmff.Logger = defExif, defJpeg, defBmff
		return
	}
	parts := strings.SplitN(spec, ":", 2)
	lvl, err := zerolog.ParseLevel(parts[0])
	if err != nil {
		lvl = zerolog.PanicLevel
	}
	var w io.Writer = io.Discard
	if len(parts) > 1 {
		switch parts[1] {
		case "buf":
			LogBuf.Reset()
			w = &LogBuf
		case "fail":
			w = failWriter{}
		}
	}
	imagemeta.SetLogger(w, lvl)
}
