// Package ops is the worker side of the harness: it executes operations on the
// real imagemeta code (built from /repo's working tree with -tags verif) and
// reports what it observed. Nothing in here decides a verdict.
package ops

import (
	"bufio"
	"encoding/json"
	"errors"
	"fmt"
	"io"
	"os"
	"runtime"
	"runtime/debug"
	"strings"
	"syscall"
	"time"

	"verif/core"
)

// Handler executes one op on the real code and fills obs.
type Handler func(op *core.Op, obs *core.Obs)

var registry = map[string]Handler{}

// Register adds an op kind.
func Register(kind string, h Handler) { registry[kind] = h }

// ErrInjected is the non-EOF error delivered by fault kind "ERR".
var ErrInjected = errors.New("verif: injected I/O error")

// SReader is the scripted reader: delivers Data[:cut] in the scheduled chunk
// sizes, then EOF or an injected error; counts what is requested of it.
type SReader struct {
	data    []byte
	cut     int
	fault   string
	pos     int64
	chunks  []int
	ci      int
	eofData bool // deliver the last bytes together with io.EOF
	Req     int64
	Reads   int
	Seeks   int
	Script  []int // sizes of the Read requests, in order (first 2048)
}

// NewSReader builds the reader an op describes.
func NewSReader(op *core.Op) *SReader {
	r := &SReader{data: op.Data, cut: len(op.Data), fault: op.Fault, chunks: op.Chunks}
	if op.Cut >= 0 && op.Cut < len(op.Data) {
		r.cut = op.Cut
	}
	if len(r.chunks) > 0 && r.chunks[0] == 0 { // leading 0 = "data with EOF on the final read"
		r.eofData = true
		r.chunks = r.chunks[1:]
	}
	return r
}

func (r *SReader) failure() error {
	if r.fault == "ERR" {
		return ErrInjected
	}
	return io.EOF
}

func (r *SReader) Read(p []byte) (int, error) {
	r.Reads++
	r.Req += int64(len(p))
	if len(p) == 0 {
		return 0, nil
	}
	avail := int64(r.cut) - r.pos
	if avail <= 0 {
		return 0, r.failure()
	}
	n := int64(len(p))
	if n > avail {
		n = avail
	}
	if len(r.Script) < 2048 {
		r.Script = append(r.Script, len(p))
	}
	if len(r.chunks) > 0 {
		c := int64(r.chunks[r.ci%len(r.chunks)])
		r.ci++
		// classes relative to the request: -1 short by one, -2 half, -3 one byte; positive = absolute size
		switch c {
		case -1:
			c = int64(len(p)) - 1
		case -2:
			c = int64(len(p)) / 2
		case -3:
			c = 1
		}
		if c >= 1 && c < n {
			n = c
		}
	}
	copy(p, r.data[r.pos:r.pos+n])
	r.pos += n
	if r.eofData && r.pos == int64(r.cut) && r.fault != "ERR" {
		return int(n), io.EOF
	}
	return int(n), nil
}

func (r *SReader) Seek(off int64, whence int) (int64, error) {
	r.Seeks++
	var np int64
	switch whence {
	case io.SeekStart:
		np = off
	case io.SeekCurrent:
		np = r.pos + off
	case io.SeekEnd:
		np = int64(r.cut) + off
	default:
		return 0, errors.New("verif: bad whence")
	}
	if np < 0 {
		return 0, errors.New("verif: negative position")
	}
	r.pos = np
	return np, nil
}

func (r *SReader) ReadAt(p []byte, off int64) (int, error) {
	r.Reads++
	r.Req += int64(len(p))
	if off >= int64(r.cut) {
		return 0, r.failure()
	}
	n := copy(p, r.data[off:r.cut])
	if n < len(p) {
		return n, r.failure()
	}
	return n, nil
}

// Pos returns the current position.
func (r *SReader) Pos() int64 { return r.pos }

// libSite extracts the innermost frame inside the library from a stack dump.
func libSite(stack string) string {
	for _, ln := range strings.Split(stack, "\n") {
		ln = strings.TrimSpace(ln)
		if strings.HasPrefix(ln, "github.com/evanoberholster/imagemeta") {
			if i := strings.LastIndex(ln, "("); i > 0 {
				ln = ln[:i]
			}
			ln = strings.TrimPrefix(ln, "github.com/evanoberholster/imagemeta")
			ln = strings.TrimPrefix(ln, "/")
			if ln == "" {
				continue
			}
			return ln
		}
	}
	return "?"
}

// Guard runs fn, converting a panic into obs.Panic/obs.Site.
func Guard(obs *core.Obs, fn func()) {
	defer func() {
		if p := recover(); p != nil {
			if s, ok := p.(stallPanic); ok {
				obs.Stall = string(s)
				return
			}
			st := string(debug.Stack())
			// skip the frames of the recover machinery: find "panic(" line and take after
			if i := strings.Index(st, "panic("); i >= 0 {
				st = st[i:]
			}
			obs.Panic = fmt.Sprint(p)
			if len(obs.Panic) > 300 {
				obs.Panic = obs.Panic[:300]
			}
			obs.Site = libSite(st)
		}
	}()
	fn()
}

type stallPanic string

func (s stallPanic) Error() string { return string(s) }

// SetErr records an error and the sentinels it matches.
func SetErr(obs *core.Obs, err error, sentinels map[string]error) {
	if err == nil {
		return
	}
	obs.Err = err.Error()
	if obs.Err == "" {
		obs.Err = "(empty error text)"
	}
	for name, s := range sentinels {
		if errors.Is(err, s) {
			obs.ErrIs = append(obs.ErrIs, name)
		}
	}
}

// JSON marshals v into obs.R.
func JSON(obs *core.Obs, v interface{}) {
	b, err := json.Marshal(v)
	if err != nil {
		b, _ = json.Marshal(map[string]string{"marshal_error": err.Error()})
	}
	obs.R = b
}

func stdSize() int64 {
	var st syscall.Stat_t
	if err := syscall.Fstat(1, &st); err != nil {
		return 0
	}
	var st2 syscall.Stat_t
	if err := syscall.Fstat(2, &st2); err == nil && st2.Ino != st.Ino {
		return st.Size + st2.Size
	}
	return st.Size
}

// WorkerMain is the entry point of `verif worker <in> <out>`.
func WorkerMain(inPath, outPath string) int {
	in, err := os.Open(inPath)
	if err != nil {
		fmt.Fprintln(os.Stderr, err)
		return 3
	}
	defer in.Close()
	out, err := os.OpenFile(outPath, os.O_WRONLY|os.O_APPEND, 0o644)
	if err != nil {
		fmt.Fprintln(os.Stderr, err)
		return 3
	}
	defer out.Close()
	br := bufio.NewReaderSize(in, 1<<20)
	for {
		line, rerr := br.ReadBytes('\n')
		if len(line) > 1 {
			var op core.Op
			if e := json.Unmarshal(line, &op); e != nil {
				fmt.Fprintln(os.Stderr, "bad op:", e)
				return 3
			}
			obs := ExecOp(&op)
			b, _ := json.Marshal(obs)
			b = append(b, '\n')
			if _, e := out.Write(b); e != nil {
				return 3
			}
		}
		if rerr != nil {
			break
		}
	}
	return 0
}

// ExecOp runs one op with all the generic instrumentation.
func ExecOp(op *core.Op) *core.Obs {
	obs := &core.Obs{ID: op.ID}
	h, ok := registry[op.Kind]
	if !ok {
		obs.Crash = "unknown op kind " + op.Kind
		return obs
	}
	setLevel(op.Level)
	if op.Trace {
		startTrace(op.Count, len(op.Data))
	}
	s0 := stdSize()
	var m0, m1 runtime.MemStats
	measure := op.Kind == "alloc" || strings.HasPrefix(op.Kind, "alloc")
	if measure {
		runtime.GC()
		runtime.ReadMemStats(&m0)
	}
	t0 := time.Now()
	Guard(obs, func() { h(op, obs) })
	obs.NS = time.Since(t0).Nanoseconds()
	if measure {
		runtime.ReadMemStats(&m1)
		obs.Alloc = m1.TotalAlloc - m0.TotalAlloc
	}
	if op.Trace {
		obs.Events = stopTrace()
		if stalled != "" {
			obs.Stall, obs.Panic, obs.Err = stalled, "", ""
			obs.Events = nil
			stalled = ""
		}
	}
	if op.NoRes {
		obs.R = nil
	}
	obs.Std = int(stdSize() - s0)
	if op.Level != "" {
		setLevel("")
	}
	return obs
}
