package ops

import (
	"bufio"
	"encoding/hex"
	"encoding/json"
	"fmt"
	"time"

	"github.com/evanoberholster/imagemeta/xmp"
	"verif/core"
)

func xtime(t time.Time) string {
	if t.IsZero() {
		return ""
	}
	_, off := t.Zone()
	return fmt.Sprintf("%s|%d", t.Format("2006-01-02T15:04:05.000000000"), off)
}

func strs(s []string) []string {
	if s == nil {
		return []string{}
	}
	return s
}

// FlatXMP projects xmp.XMP onto property ids -> primitive values.
func FlatXMP(x xmp.XMP) map[string]interface{} {
	return map[string]interface{}{
		"tiff:Make": x.Tiff.Make, "tiff:Model": x.Tiff.Model, "tiff:ImageWidth": float64(x.Tiff.ImageWidth), "tiff:ImageLength": float64(x.Tiff.ImageLength),
		"tiff:Orientation":     float64(x.Tiff.Orientation),
		"exif:PixelXDimension": float64(x.Exif.PixelXDimension), "exif:PixelYDimension": float64(x.Exif.PixelYDimension),
		"exif:DateTimeOriginal": xtime(x.Exif.DateTimeOriginal), "exif:ExposureTime": fnum(float64(x.Exif.ExposureTime)),
		"exif:ExposureProgram": float64(x.Exif.ExposureProgram), "exif:ExposureMode": float64(x.Exif.ExposureMode),
		"exif:ExposureBiasValue": float64(x.Exif.ExposureBias), "exif:MeteringMode": float64(x.Exif.MeteringMode),
		"exif:FNumber": fnum(float64(x.Exif.Aperture)), "exif:FocalLength": fnum(float64(x.Exif.FocalLength)),
		"exif:SubjectDistance": fnum(float64(x.Exif.SubjectDistance)), "exif:ISOSpeedRatings": float64(x.Exif.ISOSpeedRatings),
		"exif:GPSLatitude": fnum(x.Exif.GPSLatitude), "exif:GPSLongitude": fnum(x.Exif.GPSLongitude), "exif:GPSAltitude": fnum(float64(x.Exif.GPSAltitude)),
		"aux:SerialNumber": x.Aux.SerialNumber, "aux:Lens": x.Aux.Lens, "aux:LensInfo": x.Aux.LensInfo, "aux:LensID": float64(x.Aux.LensID),
		"aux:LensSerialNumber": x.Aux.LensSerialNumber, "aux:ImageNumber": float64(x.Aux.ImageNumber), "aux:FlashCompensation": float64(x.Aux.FlashCompensation),
		"xmp:CreateDate": xtime(x.Basic.CreateDate), "xmp:ModifyDate": xtime(x.Basic.ModifyDate), "xmp:MetadataDate": xtime(x.Basic.MetadataDate),
		"xmp:CreatorTool": x.Basic.CreatorTool, "xmp:Label": x.Basic.Label, "xmp:Rating": float64(x.Basic.Rating),
		"xmpMM:DocumentID": hex.EncodeToString(x.MM.DocumentID[:]), "xmpMM:InstanceID": hex.EncodeToString(x.MM.InstanceID[:]),
		"xmpMM:OriginalDocumentID": hex.EncodeToString(x.MM.OriginalDocumentID[:]), "xmpMM:PreservedFileName": x.MM.PreservedFileName,
		"crs:RawFileName": x.CRS.RawFileName,
		"dc:creator":      strs(x.DC.Creator), "dc:subject": strs(x.DC.Subject), "dc:rights": strs(x.DC.Rights), "dc:title": strs(x.DC.Title), "dc:description": strs(x.DC.Description),
		"dc:format": float64(x.DC.Format),
	}
}

func init() {
	Register("xmpparse", func(op *core.Op, obs *core.Obs) {
		var a struct {
			Small bool `json:"small"` // wrap in a small caller-owned bufio.Reader first
		}
		json.Unmarshal(op.Args, &a)
		sr := NewSReader(op)
		var x xmp.XMP
		var err error
		if a.Small {
			x, err = xmp.ParseXmp(bufio.NewReaderSize(sr, 64))
		} else {
			x, err = xmp.ParseXmp(sr)
		}
		SetErr(obs, err, map[string]error{"ErrNoXMP": xmp.ErrNoXMP, "ErrBufferFull": bufio.ErrBufferFull})
		obs.Req, obs.Reads = sr.Req, sr.Reads
		JSON(obs, FlatXMP(x))
	})
}
