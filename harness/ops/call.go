package ops

import (
	"bufio"
	"crypto/sha1"
	"encoding/hex"
	"encoding/json"
	"io"

	"github.com/evanoberholster/imagemeta"
	"github.com/evanoberholster/imagemeta/exif2"
	"github.com/evanoberholster/imagemeta/imagetype"
	"github.com/evanoberholster/imagemeta/isobmff"
	"github.com/evanoberholster/imagemeta/jpeg"
	"github.com/evanoberholster/imagemeta/meta"
	"github.com/evanoberholster/imagemeta/png"
	"github.com/evanoberholster/imagemeta/preview"
	"github.com/evanoberholster/imagemeta/tiff"
	"github.com/evanoberholster/imagemeta/xmp"
	"verif/core"
)

// CallEntries lists every public entry point that consumes file bytes, as run by the "call" op.
var CallEntries = []string{
	"Decode", "DecodeTiff", "DecodeCR2", "DecodeHeif", "DecodeJPEG", "DecodePng", "DecodeCR3", "PreviewCR3", "Parse",
	"ScanJPEG", "ScanJPEG/raw", "ScanTiffHeader", "ScanTiffHeader/raw", "ScanPngHeader", "BmffReader", "ParseXmp",
	"imagetype.Scan", "imagetype.ScanBuf", "imagetype.ReadAt", "imagetype.Buf",
}

// ownBR is the bufio.Reader of a caller that re-uses its own reader across ScanJPEG calls.
var ownBR *bufio.Reader

type callArgs struct {
	Entry string `json:"entry"`
}

func hdrMap(h meta.ExifHeader) map[string]interface{} {
	return map[string]interface{}{"bo": int(h.ByteOrder), "ifd0": h.FirstIfdOffset, "tiffOff": h.TiffHeaderOffset, "len": h.ExifLength, "first": int(h.FirstIfd), "it": int(h.ImageType)}
}

func digest(b []byte) map[string]interface{} {
	s := sha1.Sum(b)
	return map[string]interface{}{"len": len(b), "sha1": hex.EncodeToString(s[:8]), "nil": b == nil}
}

// RunCall executes one entry point on the scripted reader and returns a canonical result.
func RunCall(entry string, sr *SReader, data []byte) (res map[string]interface{}, err error) {
	res = map[string]interface{}{}
	flat := func(e exif2.Exif, er error) error { res["f"] = FlatExif(e); return er }
	switch entry {
	case "Decode":
		return res, flat(imagemeta.Decode(sr))
	case "DecodeTiff":
		return res, flat(imagemeta.DecodeTiff(sr))
	case "DecodeCR2":
		return res, flat(imagemeta.DecodeCR2(sr))
	case "DecodeHeif":
		return res, flat(imagemeta.DecodeHeif(sr))
	case "DecodeJPEG":
		return res, flat(imagemeta.DecodeJPEG(sr))
	case "DecodePng":
		return res, flat(imagemeta.DecodePng(sr))
	case "DecodeCR3":
		return res, flat(imagemeta.DecodeCR3(sr))
	case "Parse":
		return res, flat(exif2.Parse(sr))
	case "PreviewCR3":
		b, er := imagemeta.PreviewCR3(sr)
		res["prev"] = digest(b)
		return res, er
	case "ScanJPEG", "ScanJPEG/raw":
		// the library's own consumers as callbacks: Exif reader and XMP parser
		ir := exif2.NewIfdReader(exif2.Logger)
		defer ir.Close()
		var xm xmp.XMP
		var xerr string
		calls := 0
		ecb := func(r io.Reader, h meta.ExifHeader) error {
			calls++
			return ir.DecodeJPEGIfd(r, h)
		}
		xcb := func(r io.Reader) error {
			calls++
			var e error
			if xm, e = xmp.ParseXmp(r); e != nil {
				xerr = e.Error()
			}
			return nil
		}
		var er error
		if entry == "ScanJPEG" {
			er = jpeg.ScanJPEG(bufio.NewReaderSize(sr, 4096), ecb, xcb)
		} else {
			er = jpeg.ScanJPEG(sr, ecb, xcb)
		}
		res["f"] = FlatExif(ir.Exif)
		res["xmp"] = xm
		res["xerr"] = xerr
		res["calls"] = calls
		return res, er
	case "ScanJPEG/own-prepare", "ScanJPEG/own-scan", "ScanJPEG/own":
		// a caller that keeps ONE bufio.Reader of its own across calls (ScanJPEG accepts the caller's reader):
		// prepare = re-target it at this input, scan = scan whatever it is targeted at
		if ownBR == nil {
			ownBR = bufio.NewReaderSize(nil, 4096)
		}
		if entry != "ScanJPEG/own-scan" {
			ownBR.Reset(sr)
		}
		if entry == "ScanJPEG/own-prepare" {
			return res, nil
		}
		ir := exif2.NewIfdReader(exif2.Logger)
		defer ir.Close()
		er := jpeg.ScanJPEG(ownBR, ir.DecodeJPEGIfd, nil)
		res["f"] = FlatExif(ir.Exif)
		return res, er
	case "ScanTiffHeader":
		br := bufio.NewReaderSize(sr, 4096)
		h, er := tiff.ScanTiffHeader(br, imagetype.ImageUnknown)
		res["hdr"] = hdrMap(h)
		if er == nil {
			var nb [4]byte
			n, _ := io.ReadFull(br, nb[:])
			res["next"] = hex.EncodeToString(nb[:n])
		}
		return res, er
	case "ScanTiffHeader/raw":
		h, er := tiff.ScanTiffHeader(sr, imagetype.ImageUnknown)
		res["hdr"] = hdrMap(h)
		return res, er
	case "ScanPngHeader":
		h, er := png.ScanPngHeader(sr)
		res["hdr"] = hdrMap(h)
		if er == nil {
			res["pos"] = sr.Pos()
		}
		return res, er
	case "BmffReader":
		br := bufio.NewReaderSize(sr, 4096)
		ir := exif2.NewIfdReader(exif2.Logger)
		defer ir.Close()
		pr := preview.NewPreviewReader(preview.Logger)
		bmr := isobmff.NewReader(br)
		defer bmr.Close()
		var xm xmp.XMP
		var xerr string
		bmr.ExifReader = ir.DecodeIfd
		bmr.PreviewImageReader = pr.RenderPreview
		bmr.XMPReader = func(r io.Reader) error {
			var e error
			if xm, e = xmp.ParseXmp(r); e != nil {
				xerr = e.Error()
			}
			return nil
		}
		er := bmr.ReadFTYP()
		n := 0
		for ; er == nil && n < 8; n++ {
			if _, perr := br.Peek(1); perr != nil {
				break
			}
			er = bmr.ReadMetadata()
		}
		res["f"] = FlatExif(ir.Exif)
		res["xmp"] = xm
		res["xerr"] = xerr
		res["prev"] = digest(pr.PreviewImage)
		res["boxes"] = n
		return res, er
	case "ParseXmp":
		x, er := xmp.ParseXmp(sr)
		res["xmp"] = x
		return res, er
	case "imagetype.Scan":
		t, er := imagetype.Scan(sr)
		res["type"] = int(t)
		return res, er
	case "imagetype.ScanBuf":
		br := bufio.NewReaderSize(sr, 64)
		t, er := imagetype.ScanBuf(br)
		res["type"] = int(t)
		// still yields the stream from byte 0
		p, _ := br.Peek(4)
		res["peek"] = hex.EncodeToString(p)
		return res, er
	case "imagetype.ReadAt":
		t, er := imagetype.ReadAt(sr)
		res["type"] = int(t)
		return res, er
	case "imagetype.Buf":
		d := data
		if sr.cut < len(d) {
			d = d[:sr.cut]
		}
		d = append(make([]byte, 0, len(d)), d...) // capacity = length: nothing readable behind the bytes given
		t, er := imagetype.Buf(d)
		res["type"] = int(t)
		return res, er
	}
	return res, io.ErrNoProgress
}

var callSentinels = map[string]error{"ErrNoExif": meta.ErrNoExif, "ErrImageTypeNotFound": imagetype.ErrImageTypeNotFound,
	"ErrMetadataNotSupported": imagemeta.ErrMetadataNotSupported, "ErrDataLength": imagetype.ErrDataLength,
	"ErrNoJPEGMarker": jpeg.ErrNoJPEGMarker, "EOF": io.EOF, "ErrUnexpectedEOF": io.ErrUnexpectedEOF, "ErrInjected": ErrInjected,
	"ErrNoXMP": xmp.ErrNoXMP}

func init() {
	h := func(op *core.Op, obs *core.Obs) {
		var a callArgs
		json.Unmarshal(op.Args, &a)
		sr := NewSReader(op)
		res, err := RunCall(a.Entry, sr, op.Data)
		SetErr(obs, err, callSentinels)
		obs.Req, obs.Reads = sr.Req, sr.Reads
		if op.Script {
			obs.Script = sr.Script
		}
		JSON(obs, res)
	}
	Register("call", h)
	Register("alloc-call", h) // same, with TotalAlloc measured around it (see ExecOp)
}
