package ops

import (
	"bufio"
	"encoding/json"
	"io"

	"github.com/evanoberholster/imagemeta/isobmff"
	"github.com/evanoberholster/imagemeta/meta"
	"verif/core"
)

// BCall is one callback invocation observed while walking an ISOBMFF file.
type BCall struct {
	Kind  string `json:"kind"`
	Got   []byte `json:"got"`
	First int    `json:"first"`
	Ifd0  uint32 `json:"ifd0"`
	Len   uint32 `json:"len"`
	BO    int    `json:"bo"`
	Size  uint32 `json:"size"`
	Err   string `json:"err,omitempty"`
}

// BWalkR is the observation of ReadFTYP + repeated ReadMetadata.
type BWalkR struct {
	Calls []BCall  `json:"calls"`
	Tops  []int64  `json:"tops"` // stream position after each top-level call
	Errs  []string `json:"errs"`
}

func drain(r io.Reader, mode string) ([]byte, error) {
	switch mode {
	case "none":
		return nil, nil
	case "part":
		b := make([]byte, 20)
		n, err := io.ReadFull(r, b)
		return b[:n], err
	}
	return io.ReadAll(r) // a generic consumer
}

func init() {
	Register("bmffwalk", func(op *core.Op, obs *core.Obs) {
		var a struct {
			Cons  string `json:"cons"`
			Calls int    `json:"calls"`
		}
		json.Unmarshal(op.Args, &a)
		if a.Calls == 0 {
			a.Calls = 12
		}
		sr := NewSReader(op)
		br := bufio.NewReaderSize(sr, 4096)
		var res BWalkR
		bmr := isobmff.NewReader(br)
		defer bmr.Close()
		bmr.ExifReader = func(r io.Reader, h meta.ExifHeader) error {
			c := BCall{Kind: "exif", First: int(h.FirstIfd), Ifd0: h.FirstIfdOffset, Len: h.ExifLength, BO: int(h.ByteOrder)}
			var err error
			if c.Got, err = drain(r, "all"); err != nil {
				c.Err = err.Error()
			}
			res.Calls = append(res.Calls, c)
			return nil
		}
		bmr.XMPReader = func(r io.Reader) error {
			c := BCall{Kind: "xmp"}
			var err error
			if c.Got, err = drain(r, a.Cons); err != nil {
				c.Err = err.Error()
			}
			res.Calls = append(res.Calls, c)
			return nil
		}
		bmr.PreviewImageReader = func(r io.Reader, h meta.PreviewHeader) error {
			c := BCall{Kind: "prev", Size: h.Size}
			buf := make([]byte, 0, 64)
			tmp := make([]byte, 16)
			for uint32(len(buf)) < h.Size && len(buf) < 1<<20 {
				n := int(h.Size) - len(buf)
				if n > len(tmp) {
					n = len(tmp)
				}
				m, err := r.Read(tmp[:n])
				buf = append(buf, tmp[:m]...)
				if err != nil {
					c.Err = err.Error()
					break
				}
				if m == 0 {
					break
				}
			}
			c.Got = buf
			res.Calls = append(res.Calls, c)
			return nil
		}
		pos := func() int64 { return sr.Pos() - int64(br.Buffered()) }
		err := bmr.ReadFTYP()
		res.Tops = append(res.Tops, pos())
		for k := 0; err == nil && k < a.Calls; k++ {
			if _, perr := br.Peek(1); perr != nil {
				break
			}
			err = bmr.ReadMetadata()
			res.Tops = append(res.Tops, pos())
		}
		SetErr(obs, err, nil)
		obs.Req, obs.Reads = sr.Req, sr.Reads
		JSON(obs, res)
	})
}
