package ops

import (
	"bufio"
	"encoding/json"
	"io"

	"github.com/evanoberholster/imagemeta/exif2"
	"github.com/evanoberholster/imagemeta/jpeg"
	"github.com/evanoberholster/imagemeta/meta"
	"verif/core"
)

// JCall is one callback invocation observed during ScanJPEG.
type JCall struct {
	Kind    string `json:"kind"`
	BO      int    `json:"bo"`
	Ifd0    uint32 `json:"ifd0"`
	TiffOff uint32 `json:"tiffOff"`
	Len     uint32 `json:"len"`
	Got     []byte `json:"got"`   // bytes the callback read
	EOFAt   int    `json:"eofAt"` // for "all": number of bytes after which the reader reported EOF (-1: not probed)
	CbErr   string `json:"cbErr,omitempty"`
}

// JScanR is the observation of one ScanJPEG call.
type JScanR struct {
	Calls    []JCall `json:"calls"`
	Consumed int64   `json:"consumed"` // stream position of the caller's bufio.Reader after the call
}

type jpegArgs struct {
	XCons []string `json:"xcons"` // consumption mode per XMP callback, in call order
	Exif  string   `json:"exif"`  // "pieces" | "lib" | "none"
	Piece int      `json:"piece"`
	NoBuf bool     `json:"nobuf"` // pass a plain reader (ScanJPEG uses its pooled bufio.Reader)
}

func readPieces(r io.Reader, n int, piece int) ([]byte, error) {
	out := make([]byte, 0, n)
	if piece <= 0 {
		piece = 7
	}
	for len(out) < n {
		k := piece
		if k > n-len(out) {
			k = n - len(out)
		}
		buf := make([]byte, k)
		m, err := r.Read(buf)
		out = append(out, buf[:m]...)
		if err != nil {
			return out, err
		}
		if m == 0 {
			return out, io.ErrNoProgress
		}
	}
	return out, nil
}

func init() {
	Register("jpegscan", func(op *core.Op, obs *core.Obs) {
		var a jpegArgs
		json.Unmarshal(op.Args, &a)
		sr := NewSReader(op)
		var res JScanR
		xi := 0
		exifCb := func(r io.Reader, h meta.ExifHeader) error {
			c := JCall{Kind: "exif", BO: int(h.ByteOrder), Ifd0: h.FirstIfdOffset, TiffOff: h.TiffHeaderOffset, Len: h.ExifLength, EOFAt: -1}
			var err error
			switch a.Exif {
			case "lib":
				ir := exif2.NewIfdReader(exif2.Logger)
				err = ir.DecodeJPEGIfd(r, h)
				ir.Close()
			default:
				c.Got, err = readPieces(r, int(h.ExifLength), a.Piece)
			}
			if err != nil {
				c.CbErr = err.Error()
			}
			res.Calls = append(res.Calls, c)
			return err
		}
		xmpCb := func(r io.Reader) error {
			c := JCall{Kind: "xmp", EOFAt: -1}
			mode := "all"
			if xi < len(a.XCons) {
				mode = a.XCons[xi]
			}
			xi++
			switch mode {
			case "none":
			case "part":
				// the harness knows the limit only through the reader: read via a probe of the declared size
				if lr, ok := r.(*io.LimitedReader); ok {
					c.Len = uint32(lr.N)
					c.Got, _ = readPieces(r, int(lr.N)/2, a.Piece)
				}
			default:
				if lr, ok := r.(*io.LimitedReader); ok {
					c.Len = uint32(lr.N)
				}
				b, err := io.ReadAll(r)
				c.Got = b
				c.EOFAt = len(b)
				if err != nil {
					c.CbErr = err.Error()
				}
			}
			res.Calls = append(res.Calls, c)
			return nil
		}
		var ecb func(io.Reader, meta.ExifHeader) error = exifCb
		if a.Exif == "none" {
			ecb = nil
		}
		var err error
		if a.NoBuf {
			err = jpeg.ScanJPEG(sr, ecb, xmpCb)
			res.Consumed = -1
		} else {
			br := bufio.NewReaderSize(sr, 4096)
			err = jpeg.ScanJPEG(br, ecb, xmpCb)
			res.Consumed = sr.Pos() - int64(br.Buffered())
		}
		SetErr(obs, err, map[string]error{"ErrNoJPEGMarker": jpeg.ErrNoJPEGMarker, "ErrEndOfImage": jpeg.ErrEndOfImage, "ErrNoExif": meta.ErrNoExif})
		obs.Req, obs.Reads = sr.Req, sr.Reads
		JSON(obs, res)
	})
}
