package ops

import (
	"encoding/json"
	"fmt"

	"github.com/evanoberholster/imagemeta/exif2/ifds"
	"github.com/evanoberholster/imagemeta/exif2/tag"
	"github.com/evanoberholster/imagemeta/imagetype"
	"github.com/evanoberholster/imagemeta/isobmff"
	"github.com/evanoberholster/imagemeta/meta"
	"github.com/evanoberholster/imagemeta/meta/canon"
	"github.com/evanoberholster/imagemeta/xmp/xmpns"
	"verif/core"
)

// enumFns maps a type name of spec/MC_EnumTables.tla to the real stringer.
var enumFns = map[string]func(v int) string{
	"imagetype.ImageType":           func(v int) string { return imagetype.ImageType(v).String() },
	"imagetype.ImageType.Extension": func(v int) string { return imagetype.ImageType(v).Extension() },
	"ifds.IfdType":                  func(v int) string { return ifds.IfdType(v).String() },
	"tag.Type":                      func(v int) string { return tag.Type(v).String() },
	"ifds.CameraMake":               func(v int) string { return ifds.CameraMake(v).String() },
	"meta.Orientation":              func(v int) string { return meta.Orientation(v).String() },
	"meta.Flash":                    func(v int) string { return meta.Flash(v).String() },
	"meta.MeteringMode":             func(v int) string { return meta.MeteringMode(v).String() },
	"meta.ExposureMode":             func(v int) string { return meta.ExposureMode(v).String() },
	"meta.ExposureProgram":          func(v int) string { return meta.ExposureProgram(v).String() },
	"meta.Compression":              func(v int) string { return meta.Compression(v).String() },
	"canon.ContinuousDrive":         func(v int) string { return canon.ContinuousDrive(v).String() },
	"canon.FocusMode":               func(v int) string { return canon.FocusMode(v).String() },
	"canon.MeteringMode":            func(v int) string { return canon.MeteringMode(v).String() },
	"canon.FocusRange":              func(v int) string { return canon.FocusRange(v).String() },
	"canon.ExposureMode":            func(v int) string { return canon.ExposureMode(v).String() },
	"canon.BracketMode":             func(v int) string { return canon.BracketMode(v).String() },
	"canon.AESetting":               func(v int) string { return canon.AESetting(v).String() },
	"canon.AFAreaMode":              func(v int) string { return canon.AFAreaMode(v).String() },
	"xmpns.Namespace":               func(v int) string { return xmpns.Namespace(v).String() },
	"isobmff.Brand":                 func(v int) string { return isobmff.Brand(v).String() },
}

// enumParse maps a type to the parser that must give a documented name's value back.
var enumParse = map[string]func(s string) int{
	"imagetype.ImageType": func(s string) int { return int(imagetype.FromString(s)) },
	"ifds.CameraMake": func(s string) int {
		m, ok := ifds.CameraMakeFromString(s)
		if !ok {
			return -1
		}
		return int(m)
	},
	"xmpns.Namespace": func(s string) int { return int(xmpns.IdentifyNamespace([]byte(s))) },
	"meta.MeteringMode": func(s string) int {
		var m meta.MeteringMode
		if err := m.UnmarshalText([]byte(s)); err != nil {
			return -1
		}
		return int(m)
	},
	"meta.ExposureMode": func(s string) int {
		var m meta.ExposureMode
		if err := m.UnmarshalText([]byte(s)); err != nil {
			return -1
		}
		return int(m)
	},
	"meta.ExposureProgram": func(s string) int {
		var m meta.ExposureProgram
		if err := m.UnmarshalText([]byte(s)); err != nil {
			return -1
		}
		return int(m)
	},
}

// EnumRun is a maximal run of consecutive values with the same observed string.
type EnumRun struct {
	From int    `json:"from"`
	S    string `json:"s"`
	P    bool   `json:"p,omitempty"` // the call panicked (S holds the message)
}

type enumArgs struct {
	Type  string   `json:"type"`
	Lo    int      `json:"lo"`
	Hi    int      `json:"hi"`
	Names []string `json:"names"` // documented names to parse back
}

func safeStr(f func(int) string, v int) (s string, panicked bool) {
	defer func() {
		if p := recover(); p != nil {
			s, panicked = fmt.Sprint(p), true
		}
	}()
	return f(v), false
}

func init() {
	Register("enumstr", func(op *core.Op, obs *core.Obs) {
		var a enumArgs
		json.Unmarshal(op.Args, &a)
		f := enumFns[a.Type]
		if f == nil {
			obs.Crash = "no stringer bound for " + a.Type
			return
		}
		var runs []EnumRun
		for v := a.Lo; v <= a.Hi; v++ {
			s, p := safeStr(f, v)
			if n := len(runs); n == 0 || runs[n-1].S != s || runs[n-1].P != p {
				runs = append(runs, EnumRun{From: v, S: s, P: p})
			}
		}
		parsed := map[string]int{}
		if pf := enumParse[a.Type]; pf != nil {
			for _, n := range a.Names {
				func() {
					defer func() {
						if p := recover(); p != nil {
							parsed[n] = -2
						}
					}()
					parsed[n] = pf(n)
				}()
			}
		}
		JSON(obs, map[string]interface{}{"runs": runs, "parsed": parsed})
	})
	// tagnames: every IfdType x every 16-bit tag id: TagName / ID.String return (totality)
	Register("tagnames", func(op *core.Op, obs *core.Obs) {
		var a struct{ Lo, Hi int }
		json.Unmarshal(op.Args, &a)
		bad := []string{}
		empty := 0
		for it := a.Lo; it <= a.Hi; it++ {
			for id := 0; id < 65536; id++ {
				s, p := safeStr(func(int) string { return ifds.IfdType(it).TagName(tag.ID(id)) }, 0)
				if p && len(bad) < 20 {
					bad = append(bad, fmt.Sprintf("IfdType(%d).TagName(0x%04x): %s", it, id, s))
				}
				if s == "" {
					empty++
				}
				// the documented fallback for a tag without a name is the id in the form 0x%04x: whatever looks
				// like the fallback must be the fallback of THIS id
				want := fmt.Sprintf("0x%04x", id)
				if !p && len(s) >= 2 && s[:2] == "0x" && s != want && len(bad) < 20 {
					bad = append(bad, fmt.Sprintf("IfdType(%d).TagName(0x%04x) = %q: not the documented numeric fallback %q", it, id, s, want))
				}
				if it == a.Lo {
					s2, p2 := safeStr(func(int) string { return tag.ID(id).String() }, 0)
					if p2 && len(bad) < 20 {
						bad = append(bad, fmt.Sprintf("tag.ID(0x%04x).String(): %s", id, s2))
					} else if s2 != want && len(bad) < 20 {
						bad = append(bad, fmt.Sprintf("tag.ID(0x%04x).String() = %q, documented form %q", id, s2, want))
					}
				}
			}
		}
		if a.Lo == 0 {
			// the documented names on the sub-directories (ExifTool: SubIFD2 holds the JpgFromRaw pointers, the
			// others the preview image pointers); every other id is named as in IFD0
			subs := []ifds.IfdType{ifds.SubIfd0, ifds.SubIfd1, ifds.SubIfd2, ifds.SubIfd3, ifds.SubIfd4, ifds.SubIfd5, ifds.SubIfd6, ifds.SubIfd7}
			for _, it := range subs {
				for id := 0; id < 65536; id++ {
					want := ifds.IFD0.TagName(tag.ID(id))
					switch {
					case id == 0x0111 && it == ifds.SubIfd2:
						want = "JpgFromRawStart"
					case id == 0x0117 && it == ifds.SubIfd2:
						want = "JpgFromRawLength"
					case id == 0x0111:
						want = "PreviewImageStart"
					case id == 0x0117:
						want = "PreviewImageLength"
					}
					if got, p := safeStr(func(int) string { return it.TagName(tag.ID(id)) }, 0); !p && got != want && len(bad) < 20 {
						bad = append(bad, fmt.Sprintf("IfdType(%d).TagName(0x%04x) = %q, documented name %q", it, id, got, want))
					}
				}
			}
		}
		JSON(obs, map[string]interface{}{"bad": bad, "empty": empty})
	})
}
