package ops

import (
	"bufio"
	"encoding/json"
	"io"
	"math"
	"time"

	"github.com/evanoberholster/imagemeta"
	"github.com/evanoberholster/imagemeta/exif2"
	"github.com/evanoberholster/imagemeta/exif2/ifds"
	"github.com/evanoberholster/imagemeta/imagetype"
	"github.com/evanoberholster/imagemeta/isobmff"
	"github.com/evanoberholster/imagemeta/jpeg"
	"github.com/evanoberholster/imagemeta/meta"
	"github.com/evanoberholster/imagemeta/meta/utils"
	"github.com/evanoberholster/imagemeta/tiff"
	"verif/core"
)

const timeFmt = "2006-01-02T15:04:05.000000000Z07:00"

func ftime(t time.Time) string {
	n, _ := t.Zone()
	return t.Format(timeFmt) + "|" + n
}

func fnum(f float64) interface{} {
	if math.IsNaN(f) {
		return "NaN"
	}
	if math.IsInf(f, 0) {
		return "Inf"
	}
	return f
}

// FlatExif projects exif2.Exif onto the fields the properties talk about.
func FlatExif(e exif2.Exif) map[string]interface{} {
	m := map[string]interface{}{
		"ImageType": float64(e.ImageType), "Make": e.Make, "Model": e.Model, "Software": e.Software, "Artist": e.Artist,
		"Copyright": e.Copyright, "ImageDescription": e.ImageDescription, "LensMake": e.LensMake, "LensModel": e.LensModel,
		"LensSerial": e.LensSerial, "CameraSerial": e.CameraSerial,
		"CameraMake": float64(e.CameraMake), "CameraModel": float64(e.CameraModel),
		"ImageWidth": float64(e.ImageWidth), "ImageHeight": float64(e.ImageHeight), "Orientation": float64(e.Orientation),
		"StripOffsets": float64(e.StripOffsets), "StripByteCounts": float64(e.StripByteCounts), "ISOSpeed": float64(e.ISOSpeed),
		"ExposureProgram": float64(e.ExposureProgram), "ExposureMode": float64(e.ExposureMode), "MeteringMode": float64(e.MeteringMode),
		"Flash": float64(e.Flash), "ExposureBias": float64(e.ExposureBias),
		"ExposureTime": fnum(float64(e.ExposureTime)), "FNumber": fnum(float64(e.FNumber)), "FocalLength": fnum(float64(e.FocalLength)),
		"FocalLengthIn35mmFormat": fnum(float64(e.FocalLengthIn35mmFormat)),
		"ModifyDate":              ftime(e.ModifyDate()), "DateTimeOriginal": ftime(e.DateTimeOriginal()), "CreateDate": ftime(e.CreateDate()),
		"GPS.lat": fnum(e.GPS.Latitude()), "GPS.lon": fnum(e.GPS.Longitude()), "GPS.alt": fnum(float64(e.GPS.Altitude())),
		"GPS.date": ftime(e.GPS.Date()),
	}
	li := make([]interface{}, 8)
	for i, v := range e.LensInfo {
		li[i] = float64(v)
	}
	m["LensInfo"] = li
	return m
}

type exifArgs struct {
	Entry string `json:"entry"`
	Ifd0  uint32 `json:"ifd0"`
	Len   uint32 `json:"len"`
	BO    string `json:"bo"`
	First int    `json:"first"`
}

// ExifR is the observation of one decode call.
type ExifR struct {
	F        map[string]interface{} `json:"f"`
	Consumed int64                  `json:"consumed"`
}

var exifSentinels = map[string]error{"ErrNoExif": meta.ErrNoExif, "ErrImageTypeNotFound": imagetype.ErrImageTypeNotFound,
	"ErrMetadataNotSupported": imagemeta.ErrMetadataNotSupported, "ErrDataLength": imagetype.ErrDataLength,
	"ErrNoJPEGMarker": jpeg.ErrNoJPEGMarker, "EOF": io.EOF, "ErrUnexpectedEOF": io.ErrUnexpectedEOF, "ErrInjected": ErrInjected}

// RunExifEntry runs one metadata entry point on the scripted reader.
func RunExifEntry(a *exifArgs, sr *SReader) (exif2.Exif, error, int64) {
	consumed := int64(-1)
	switch a.Entry {
	case "Decode":
		e, err := imagemeta.Decode(sr)
		return e, err, consumed
	case "DecodeTiff":
		e, err := imagemeta.DecodeTiff(sr)
		return e, err, consumed
	case "DecodeCR2":
		e, err := imagemeta.DecodeCR2(sr)
		return e, err, consumed
	case "DecodeHeif":
		e, err := imagemeta.DecodeHeif(sr)
		return e, err, consumed
	case "DecodeJPEG":
		e, err := imagemeta.DecodeJPEG(sr)
		return e, err, consumed
	case "DecodePng":
		e, err := imagemeta.DecodePng(sr)
		return e, err, consumed
	case "DecodeCR3":
		e, err := imagemeta.DecodeCR3(sr)
		return e, err, consumed
	case "Parse":
		e, err := exif2.Parse(sr)
		return e, err, consumed
	case "BmffReader": // the public isobmff.Reader API with the library's own Exif reader as callback
		br := bufio.NewReaderSize(sr, 4096)
		ir := exif2.NewIfdReader(exif2.Logger)
		defer ir.Close()
		bmr := isobmff.NewReader(br)
		defer bmr.Close()
		bmr.ExifReader = ir.DecodeIfd
		if err := bmr.ReadFTYP(); err != nil {
			return ir.Exif, err, consumed
		}
		for i := 0; i < 8; i++ {
			if _, perr := br.Peek(8); perr != nil {
				break // end of file: no further top-level box
			}
			if err := bmr.ReadMetadata(); err != nil {
				return ir.Exif, err, consumed
			}
		}
		return ir.Exif, nil, consumed
	case "ScanTiff+DecodeTiff": // the documented composition on a caller-owned bufio.Reader
		br := bufio.NewReaderSize(sr, 4096)
		h, err := tiff.ScanTiffHeader(br, imagetype.ImageUnknown)
		if err != nil {
			return exif2.Exif{}, err, consumed
		}
		ir := exif2.NewIfdReader(exif2.Logger)
		defer ir.Close()
		err = ir.DecodeTiff(br, h)
		return ir.Exif, err, sr.Pos() - int64(br.Buffered())
	case "DecodeIfd": // the CR3/HEIF hand-off: the container consumed the 8 header bytes
		br := bufio.NewReaderSize(sr, 4096)
		br.Discard(8)
		bo := utils.LittleEndian
		if a.BO == "BE" {
			bo = utils.BigEndian
		}
		h := meta.NewExifHeader(bo, a.Ifd0, 0, a.Len, imagetype.ImageCR3)
		if a.First != 0 {
			h.FirstIfd = ifds.IfdType(a.First)
		}
		ir := exif2.NewIfdReader(exif2.Logger)
		defer ir.Close()
		err := ir.DecodeIfd(br, h)
		return ir.Exif, err, sr.Pos() - int64(br.Buffered())
	}
	return exif2.Exif{}, io.ErrNoProgress, consumed
}

func init() {
	Register("exif", func(op *core.Op, obs *core.Obs) {
		var a exifArgs
		json.Unmarshal(op.Args, &a)
		sr := NewSReader(op)
		e, err, consumed := RunExifEntry(&a, sr)
		SetErr(obs, err, exifSentinels)
		obs.Req, obs.Reads = sr.Req, sr.Reads
		JSON(obs, ExifR{F: FlatExif(e), Consumed: consumed})
	})
}

func init() {
	Register("itypes", func(op *core.Op, obs *core.Obs) {
		JSON(obs, map[string]float64{"TIFF": float64(imagetype.ImageTiff), "JPEG": float64(imagetype.ImageJPEG), "PNG": float64(imagetype.ImagePNG),
			"CR3": float64(imagetype.ImageCR3), "HEIF": float64(imagetype.ImageHEIF), "AVIF": float64(imagetype.ImageAVIF), "CR2": float64(imagetype.ImageCR2)})
	})
}
