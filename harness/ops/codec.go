package ops

import (
	"bytes"
	"encoding/json"
	"fmt"
	"math"

	"github.com/evanoberholster/imagemeta/imagehash"
	"github.com/evanoberholster/imagemeta/imagetype"
	"github.com/evanoberholster/imagemeta/meta"
	"github.com/evanoberholster/imagemeta/meta/canon"
	"verif/core"
)

type msgpCodec interface {
	MarshalMsg([]byte) ([]byte, error)
	Msgsize() int
}
type msgpDecoder interface {
	UnmarshalMsg([]byte) ([]byte, error)
}

// intType describes one integer-backed value type: how to make a value, a decoder and read it back.
type intType struct {
	name   string
	signed bool
	bits   int
	mk     func(v int) msgpCodec
	dec    func() (msgpDecoder, func() int)
}

var intTypes = []intType{
	{"imagetype.ImageType", false, 8, func(v int) msgpCodec { return imagetype.ImageType(v) }, func() (msgpDecoder, func() int) { var x imagetype.ImageType; return &x, func() int { return int(x) } }},
	{"meta.MeteringMode", false, 16, func(v int) msgpCodec { return meta.MeteringMode(v) }, func() (msgpDecoder, func() int) { var x meta.MeteringMode; return &x, func() int { return int(x) } }},
	{"meta.ExposureMode", false, 16, func(v int) msgpCodec { return meta.ExposureMode(v) }, func() (msgpDecoder, func() int) { var x meta.ExposureMode; return &x, func() int { return int(x) } }},
	{"meta.ExposureProgram", false, 16, func(v int) msgpCodec { return meta.ExposureProgram(v) }, func() (msgpDecoder, func() int) { var x meta.ExposureProgram; return &x, func() int { return int(x) } }},
	{"meta.Flash", false, 16, func(v int) msgpCodec { return meta.Flash(v) }, func() (msgpDecoder, func() int) { var x meta.Flash; return &x, func() int { return int(x) } }},
	{"meta.Orientation", false, 16, func(v int) msgpCodec { return meta.Orientation(v) }, func() (msgpDecoder, func() int) { var x meta.Orientation; return &x, func() int { return int(x) } }},
	{"meta.Compression", false, 16, func(v int) msgpCodec { return meta.Compression(v) }, func() (msgpDecoder, func() int) { var x meta.Compression; return &x, func() int { return int(x) } }},
	{"meta.ExposureBias", true, 16, func(v int) msgpCodec { return meta.ExposureBias(v) }, func() (msgpDecoder, func() int) { var x meta.ExposureBias; return &x, func() int { return int(x) } }},
	{"canon.ContinuousDrive", true, 16, func(v int) msgpCodec { return canon.ContinuousDrive(v) }, func() (msgpDecoder, func() int) { var x canon.ContinuousDrive; return &x, func() int { return int(x) } }},
	{"canon.FocusMode", true, 16, func(v int) msgpCodec { return canon.FocusMode(v) }, func() (msgpDecoder, func() int) { var x canon.FocusMode; return &x, func() int { return int(x) } }},
	{"canon.MeteringMode", true, 16, func(v int) msgpCodec { return canon.MeteringMode(v) }, func() (msgpDecoder, func() int) { var x canon.MeteringMode; return &x, func() int { return int(x) } }},
	{"canon.FocusRange", true, 16, func(v int) msgpCodec { return canon.FocusRange(v) }, func() (msgpDecoder, func() int) { var x canon.FocusRange; return &x, func() int { return int(x) } }},
	{"canon.ExposureMode", true, 16, func(v int) msgpCodec { return canon.ExposureMode(v) }, func() (msgpDecoder, func() int) { var x canon.ExposureMode; return &x, func() int { return int(x) } }},
	{"canon.BracketMode", true, 16, func(v int) msgpCodec { return canon.BracketMode(v) }, func() (msgpDecoder, func() int) { var x canon.BracketMode; return &x, func() int { return int(x) } }},
	{"canon.AESetting", true, 16, func(v int) msgpCodec { return canon.AESetting(v) }, func() (msgpDecoder, func() int) { var x canon.AESetting; return &x, func() int { return int(x) } }},
	{"canon.AFAreaMode", true, 16, func(v int) msgpCodec { return canon.AFAreaMode(v) }, func() (msgpDecoder, func() int) { var x canon.AFAreaMode; return &x, func() int { return int(x) } }},
}

// every decoder that takes text or bytes: name -> run on input, report panic
var textDecoders = map[string]func(b []byte) error{
	"ExposureBias.UnmarshalText":    func(b []byte) error { var x meta.ExposureBias; return x.UnmarshalText(b) },
	"FocalLength.UnmarshalText":     func(b []byte) error { var x meta.FocalLength; return x.UnmarshalText(b) },
	"Aperture.UnmarshalText":        func(b []byte) error { var x meta.Aperture; return x.UnmarshalText(b) },
	"Aperture.ParseString":          func(b []byte) error { var x meta.Aperture; return x.ParseString(b) },
	"MeteringMode.UnmarshalText":    func(b []byte) error { var x meta.MeteringMode; return x.UnmarshalText(b) },
	"MeteringMode.UnmarshalJSON":    func(b []byte) error { var x meta.MeteringMode; return x.UnmarshalJSON(b) },
	"ExposureMode.UnmarshalText":    func(b []byte) error { var x meta.ExposureMode; return x.UnmarshalText(b) },
	"ExposureProgram.UnmarshalText": func(b []byte) error { var x meta.ExposureProgram; return x.UnmarshalText(b) },
	"ImageType.UnmarshalText":       func(b []byte) error { var x imagetype.ImageType; return x.UnmarshalText(b) },
	"UUID.UnmarshalText":            func(b []byte) error { var x meta.UUID; return x.UnmarshalText(b) },
	"UUID.UnmarshalBinary":          func(b []byte) error { var x meta.UUID; return x.UnmarshalBinary(b) },
	"UUIDFromString":                func(b []byte) error { _ = meta.UUIDFromString(string(b)); return nil },
	"imagetype.FromString":          func(b []byte) error { _ = imagetype.FromString(string(b)); return nil },
	"json:ExposureBias":             func(b []byte) error { var x meta.ExposureBias; return json.Unmarshal(b, &x) },
	"json:FocalLength":              func(b []byte) error { var x meta.FocalLength; return json.Unmarshal(b, &x) },
	"json:UUID":                     func(b []byte) error { var x meta.UUID; return json.Unmarshal(b, &x) },
	"msgp:Dimensions":               func(b []byte) error { var x meta.Dimensions; _, e := x.UnmarshalMsg(b); return e },
	"msgp:PHash64":                  func(b []byte) error { var x imagehash.PHash64; _, e := x.UnmarshalMsg(b); return e },
	"msgp:PHash256":                 func(b []byte) error { var x imagehash.PHash256; _, e := x.UnmarshalMsg(b); return e },
	"msgp:FocusDistance":            func(b []byte) error { var x canon.FocusDistance; _, e := x.UnmarshalMsg(b); return e },
	"msgp:ExposureBias":             func(b []byte) error { var x meta.ExposureBias; _, e := x.UnmarshalMsg(b); return e },
	"msgp:Aperture":                 func(b []byte) error { var x meta.Aperture; _, e := x.UnmarshalMsg(b); return e },
	"msgp:ImageType":                func(b []byte) error { var x imagetype.ImageType; _, e := x.UnmarshalMsg(b); return e },
}

func tryDecode(name string, f func([]byte) error, b []byte) (panicked string) {
	defer func() {
		if p := recover(); p != nil {
			panicked = fmt.Sprintf("%s(%q): %v", name, b, p)
		}
	}()
	_ = f(b)
	return ""
}

type codecArgs struct {
	Part  string   `json:"part"`
	Lo    int      `json:"lo"`
	N     int      `json:"n"`
	Hint  int      `json:"hint"`
	Texts []string `json:"texts"`
	Strs  []string `json:"strs"`
}

func uintLen(v int) int {
	switch {
	case v < 128:
		return 1
	case v < 256:
		return 2
	case v < 65536:
		return 3
	}
	return 5
}
func intLen(v int) int {
	switch {
	case v >= 0:
		return uintLen(v)
	case v >= -32:
		return 1
	case v >= -128:
		return 2
	case v >= -32768:
		return 3
	}
	return 5
}

func init() {
	Register("codec", func(op *core.Op, obs *core.Obs) {
		var a codecArgs
		json.Unmarshal(op.Args, &a)
		var bad []string
		add := func(format string, x ...interface{}) {
			if len(bad) < 40 {
				bad = append(bad, fmt.Sprintf(format, x...))
			}
		}
		n := 0
		switch a.Part {
		case "bias":
			for i, want := range a.Texts {
				v := a.Lo + i
				eb := meta.ExposureBias(v)
				func() {
					defer func() {
						if p := recover(); p != nil {
							add("ExposureBias(%d): panic %v", v, p)
						}
					}()
					// the property is the round trip, not a particular spelling: the specified text (want) is only
					// used to tell a spelling change from a lost value in the message
					got, err := eb.MarshalText()
					if err != nil {
						add("ExposureBias(%d).MarshalText(): %v", v, err)
					}
					var back meta.ExposureBias
					if err := back.UnmarshalText(got); err != nil || back != eb {
						add("ExposureBias(%d): UnmarshalText(MarshalText) = %d, %v (text %q, specified text %q)", v, back, err, got, want)
					}
					// Marshal(Unmarshal(Marshal(v))) == Marshal(v)
					again, _ := back.MarshalText()
					if string(again) != string(got) {
						add("ExposureBias(%d): Marshal(Unmarshal(Marshal)) = %q, Marshal = %q", v, again, got)
					}
					// through encoding/json
					jb, err := json.Marshal(eb)
					var jback meta.ExposureBias
					if err != nil || json.Unmarshal(jb, &jback) != nil || jback != eb {
						add("ExposureBias(%d): encoding/json round trip gives %d (%s, %v)", v, jback, jb, err)
					}
				}()
				n++
			}
		case "msgp":
			for _, t := range intTypes {
				for i := 0; i < a.N; i++ {
					u := a.Lo + i
					v := u
					if t.signed {
						v = u - 32768
					}
					if t.bits == 8 && (u > 255) {
						continue
					}
					func() {
						defer func() {
							if p := recover(); p != nil {
								add("%s(%d): panic %v", t.name, v, p)
							}
						}()
						c := t.mk(v)
						b, err := c.MarshalMsg(nil)
						if err != nil {
							add("%s(%d).MarshalMsg: %v", t.name, v, err)
							return
						}
						if len(b) > c.Msgsize() {
							add("%s(%d): encoded %d bytes, Msgsize() promises at most %d", t.name, v, len(b), c.Msgsize())
						}
						want := uintLen(v)
						if t.signed {
							want = intLen(v)
						}
						// no MessagePack integer format is shorter than the shortest one for this magnitude (a shorter
						// encoding cannot hold the value); longer ones are legal as long as the size hint covers them
						if len(b) < want {
							add("%s(%d): MessagePack encoding has %d bytes, the shortest integer format for this magnitude has %d", t.name, v, len(b), want)
						}
						d, get := t.dec()
						rest, err := d.UnmarshalMsg(b)
						if err != nil || len(rest) != 0 || get() != v {
							add("%s(%d): UnmarshalMsg(MarshalMsg) = %d, rest %d, err %v", t.name, v, get(), len(rest), err)
						}
					}()
					n++
				}
			}
		case "str":
			for _, s := range a.Strs {
				for name, f := range textDecoders {
					if p := tryDecode(name, f, []byte(s)); p != "" {
						add("%s", p)
					}
					n++
				}
			}
		case "fixed":
			if a.Lo == 0 {
				// every documented member of the text-marshalable enumerations survives text and JSON
				type tm interface {
					MarshalText() ([]byte, error)
				}
				chk := func(name string, v int, m tm, back func([]byte) (int, error), jback func([]byte) (int, error)) {
					t, err := m.MarshalText()
					if err != nil {
						add("%s(%d).MarshalText(): %v", name, v, err)
						return
					}
					if got, err := back(t); err != nil || got != v {
						add("%s(%d): UnmarshalText(MarshalText) = %d, %v (text %q)", name, v, got, err, t)
					}
					jb, err := json.Marshal(m)
					if got, e2 := jback(jb); err != nil || e2 != nil || got != v {
						add("%s(%d): encoding/json round trip gives %d (%s, %v %v)", name, v, got, jb, err, e2)
					}
				}
				for v := 0; v <= 23; v++ {
					chk("ImageType", v, imagetype.ImageType(v),
						func(b []byte) (int, error) { var x imagetype.ImageType; e := x.UnmarshalText(b); return int(x), e },
						func(b []byte) (int, error) { var x imagetype.ImageType; e := json.Unmarshal(b, &x); return int(x), e })
				}
				for _, v := range []int{0, 1, 2, 3, 4, 5, 6, 255} {
					chk("MeteringMode", v, meta.MeteringMode(v),
						func(b []byte) (int, error) { var x meta.MeteringMode; e := x.UnmarshalText(b); return int(x), e },
						func(b []byte) (int, error) { var x meta.MeteringMode; e := json.Unmarshal(b, &x); return int(x), e })
				}
				for v := 0; v <= 2; v++ {
					chk("ExposureMode", v, meta.ExposureMode(v),
						func(b []byte) (int, error) { var x meta.ExposureMode; e := x.UnmarshalText(b); return int(x), e },
						func(b []byte) (int, error) { var x meta.ExposureMode; e := json.Unmarshal(b, &x); return int(x), e })
				}
				for v := 0; v <= 9; v++ {
					chk("ExposureProgram", v, meta.ExposureProgram(v),
						func(b []byte) (int, error) { var x meta.ExposureProgram; e := x.UnmarshalText(b); return int(x), e },
						func(b []byte) (int, error) { var x meta.ExposureProgram; e := json.Unmarshal(b, &x); return int(x), e })
				}
			}
			// every number representable at the textual precision (two decimals): k/100
			for i := 0; i < a.N; i++ {
				k := a.Lo + i
				text := fmt.Sprintf("%d.%02d", k/100, k%100)
				f := float32(k) / 100
				got, _ := meta.Aperture(f).MarshalText()
				var ap meta.Aperture
				if err := ap.UnmarshalText(got); err != nil || ap != meta.Aperture(f) {
					add("Aperture(%s): UnmarshalText(MarshalText) = %v, %v (text %q)", text, ap, err, got)
				}
				if jb, err := json.Marshal(meta.Aperture(f)); err != nil || json.Unmarshal(jb, &ap) != nil || ap != meta.Aperture(f) {
					add("Aperture(%s): encoding/json round trip gives %v (%s, %v)", text, ap, jb, err)
				}
				got, _ = meta.FocalLength(f).MarshalText()
				var fl meta.FocalLength
				if err := fl.UnmarshalText(got); err != nil || fl != meta.FocalLength(f) {
					add("FocalLength(%s): UnmarshalText(MarshalText) = %v, %v (text %q)", text, fl, err, got)
				}
				// msgp round trip of the float-backed types at these values
				b, _ := meta.Aperture(f).MarshalMsg(nil)
				var ap2 meta.Aperture
				if _, err := ap2.UnmarshalMsg(b); err != nil || ap2 != meta.Aperture(f) || len(b) > ap2.Msgsize() {
					add("Aperture(%v): msgp round trip %v %v", f, ap2, err)
				}
				n++
			}
		case "struct":
			// structural codecs over distinct symbolic bytes and seeded values
			for i := 0; i < a.N; i++ {
				seed := uint64(a.Lo+i)*0x9E3779B97F4A7C15 + 1
				next := func() uint64 { seed ^= seed << 13; seed ^= seed >> 7; seed ^= seed << 17; return seed }
				var p256 imagehash.PHash256
				for k := range p256 {
					p256[k] = next()
				}
				if i == 0 {
					p256 = imagehash.PHash256{0x0102030405060708, 0x090a0b0c0d0e0f10, 0x1112131415161718, 0x191a1b1c1d1e1f20}
				}
				buf := make([]byte, 32)
				p256.Encode(buf)
				var q imagehash.PHash256
				q.Decode(buf)
				if q != p256 {
					add("PHash256 Encode/Decode: %v -> %v", p256, q)
				}
				for w := 0; w < 4; w++ { // little-endian packing, word w at bytes 8w..8w+7
					for k := 0; k < 8; k++ {
						if buf[8*w+k] != byte(p256[w]>>(8*uint(k))) {
							add("PHash256.Encode: byte %d of word %d is %#x, little-endian packing says %#x", k, w, buf[8*w+k], byte(p256[w]>>(8*uint(k))))
						}
					}
				}
				p64 := imagehash.PHash64(p256[0])
				b8 := make([]byte, 8)
				p64.Encode(b8)
				var q64 imagehash.PHash64
				q64.Decode(b8)
				if q64 != p64 {
					add("PHash64 Encode/Decode: %v -> %v", p64, q64)
				}
				mb, _ := p256.MarshalMsg(nil)
				var m256 imagehash.PHash256
				if rest, err := m256.UnmarshalMsg(mb); err != nil || len(rest) != 0 || m256 != p256 || len(mb) > p256.Msgsize() {
					add("PHash256 msgp round trip: %v (len %d, Msgsize %d, err %v)", m256, len(mb), p256.Msgsize(), err)
				}
				mb, _ = p64.MarshalMsg(nil)
				var m64 imagehash.PHash64
				if rest, err := m64.UnmarshalMsg(mb); err != nil || len(rest) != 0 || m64 != p64 || len(mb) > p64.Msgsize() {
					add("PHash64 msgp round trip: %v", m64)
				}
				d := meta.Dimensions{Width: uint32(next()), Height: uint32(next())}
				mb, _ = d.MarshalMsg(nil)
				var d2 meta.Dimensions
				if rest, err := d2.UnmarshalMsg(mb); err != nil || len(rest) != 0 || d2 != d || len(mb) > d.Msgsize() {
					add("Dimensions msgp round trip: %v -> %v (len %d, Msgsize %d, err %v)", d, d2, len(mb), d.Msgsize(), err)
				}
				var bb bytes.Buffer
				fd := canon.FocusDistance{int16(next()), int16(next())}
				mb, _ = fd.MarshalMsg(nil)
				var fd2 canon.FocusDistance
				if rest, err := fd2.UnmarshalMsg(mb); err != nil || len(rest) != 0 || fd2 != fd || len(mb) > fd.Msgsize() {
					add("FocusDistance msgp round trip: %v -> %v", fd, fd2)
				}
				_ = bb
				var u meta.UUID
				for k := range u {
					u[k] = byte(next())
				}
				ub, _ := u.MarshalBinary()
				var u2 meta.UUID
				if err := u2.UnmarshalBinary(ub); err != nil || u2 != u {
					add("UUID binary round trip: %v -> %v", u, u2)
				}
				ut, _ := u.MarshalText()
				var u3 meta.UUID
				if err := u3.UnmarshalText(ut); err != nil || u3 != u {
					add("UUID text round trip: %v -> %s -> %v", u, ut, u3)
				}
				ft := math.Float32frombits(uint32(next()))
				if ft == ft { // not NaN: the float-backed types round-trip their bits through MessagePack
					for _, c := range []struct {
						name string
						enc  msgpCodec
						dec  func([]byte) (float32, error)
					}{
						{"Aperture", meta.Aperture(ft), func(b []byte) (float32, error) { var x meta.Aperture; _, e := x.UnmarshalMsg(b); return float32(x), e }},
						{"FocalLength", meta.FocalLength(ft), func(b []byte) (float32, error) {
							var x meta.FocalLength
							_, e := x.UnmarshalMsg(b)
							return float32(x), e
						}},
						{"ExposureTime", meta.ExposureTime(ft), func(b []byte) (float32, error) {
							var x meta.ExposureTime
							_, e := x.UnmarshalMsg(b)
							return float32(x), e
						}},
					} {
						mb, _ := c.enc.MarshalMsg(nil)
						back, err := c.dec(mb)
						if err != nil || math.Float32bits(back) != math.Float32bits(ft) || len(mb) > c.enc.Msgsize() {
							add("%s(%v) msgp round trip: %v, %v", c.name, ft, back, err)
						}
					}
				}
				n++
			}
		}
		JSON(obs, map[string]interface{}{"n": n, "bad": bad})
	})
	Register("uuidtext", func(op *core.Op, obs *core.Obs) {
		var a struct {
			Text string `json:"text"`
		}
		json.Unmarshal(op.Args, &a)
		var u meta.UUID
		err := u.UnmarshalText([]byte(a.Text))
		SetErr(obs, err, nil)
		canon, _ := u.MarshalText()
		JSON(obs, map[string]interface{}{"hex": fmt.Sprintf("%x", u[:]), "canonical": string(canon)})
	})
}
