package ops

import (
	"encoding/json"
	"fmt"
	"image"
	"image/color"
	"math"
	"math/rand"
	"runtime"
	"sync"

	"github.com/evanoberholster/imagemeta"
	"github.com/evanoberholster/imagemeta/exif2"
	"github.com/evanoberholster/imagemeta/imagehash"
	"github.com/evanoberholster/imagemeta/imagehash/transforms"
	"github.com/evanoberholster/imagemeta/imagehash/transforms32"
	"github.com/evanoberholster/imagemeta/isobmff"
	"github.com/evanoberholster/imagemeta/jpeg"
	"verif/core"
)

// ImgDesc describes an image to build inside the worker (deterministic in Seed).
type ImgDesc struct {
	Kind    string `json:"kind"`  // RGBA | NRGBA | Gray | YCbCr | nil
	Ratio   int    `json:"ratio"` // YCbCr: 444 422 420 440 411 410
	W       int    `json:"w"`
	H       int    `json:"h"`
	OX      int    `json:"ox"` // rectangle origin
	OY      int    `json:"oy"`
	Pad     int    `json:"pad"`     // extra columns/rows of backing image around the rectangle (SubImage)
	Content string `json:"content"` // smooth | noise | const | extreme | ramp
	Seed    int64  `json:"seed"`
}

var ratios = map[int]image.YCbCrSubsampleRatio{444: image.YCbCrSubsampleRatio444, 422: image.YCbCrSubsampleRatio422, 420: image.YCbCrSubsampleRatio420,
	440: image.YCbCrSubsampleRatio440, 411: image.YCbCrSubsampleRatio411, 410: image.YCbCrSubsampleRatio410}

// pixel value of the logical image at (x, y) relative to the rectangle origin, channel c
func pix(d *ImgDesc, rng []byte, x, y, c int) uint8 {
	switch d.Content {
	case "const":
		return uint8(40 + 60*c + int(d.Seed%50))
	case "extreme":
		if (x/8+y/8+c)%2 == 0 {
			return 255
		}
		return 0
	case "ramp":
		return uint8((x*3 + y*5 + c*40 + int(d.Seed)) % 256)
	case "smooth":
		v := 128 + 90*math.Sin(float64(x+int(d.Seed%17))/9.0+float64(c)) + 30*math.Cos(float64(y)/5.0)
		return uint8(math.Max(0, math.Min(255, v)))
	}
	return rng[(y*d.W+x)*3+c]
}

// alphaAt: opacity of the logical pixel. Only the "holes" content is not opaque: blocks of fully transparent,
// half transparent and opaque pixels (the luminance of a pixel is that of its alpha-premultiplied colour).
func alphaAt(d *ImgDesc, x, y int) uint8 {
	if d.Content != "holes" {
		return 255
	}
	switch (x/8 + y/8 + int(d.Seed%3)) % 3 {
	case 0:
		return 0
	case 1:
		return 128
	}
	return 255
}

// BuildImage constructs the described image. The logical pixels depend only on (Content, Seed, W, H):
// origin, padding and image type change the storage, not the picture.
func BuildImage(d *ImgDesc) image.Image {
	if d.Kind == "nil" {
		return nil
	}
	r := rand.New(rand.NewSource(d.Seed))
	noise := make([]byte, d.W*d.H*3+3)
	r.Read(noise)
	full := image.Rect(d.OX-d.Pad, d.OY-d.Pad, d.OX+d.W+d.Pad, d.OY+d.H+d.Pad)
	rect := image.Rect(d.OX, d.OY, d.OX+d.W, d.OY+d.H)
	junk := func() uint8 { return uint8(r.Intn(256)) }
	switch d.Kind {
	case "RGBA", "NRGBA":
		var img interface {
			image.Image
			Set(x, y int, c color.Color)
		}
		if d.Kind == "RGBA" {
			img = image.NewRGBA(full)
		} else {
			img = image.NewNRGBA(full)
		}
		for y := full.Min.Y; y < full.Max.Y; y++ {
			for x := full.Min.X; x < full.Max.X; x++ {
				if (image.Point{x, y}).In(rect) {
					lx, ly := x-d.OX, y-d.OY
					img.Set(x, y, color.NRGBA{pix(d, noise, lx, ly, 0), pix(d, noise, lx, ly, 1), pix(d, noise, lx, ly, 2), alphaAt(d, lx, ly)})
				} else {
					img.Set(x, y, color.RGBA{junk(), junk(), junk(), 255})
				}
			}
		}
		if d.Pad == 0 {
			return img
		}
		return img.(interface {
			SubImage(image.Rectangle) image.Image
		}).SubImage(rect)
	case "Gray":
		img := image.NewGray(full)
		for y := full.Min.Y; y < full.Max.Y; y++ {
			for x := full.Min.X; x < full.Max.X; x++ {
				if (image.Point{x, y}).In(rect) {
					img.SetGray(x, y, color.Gray{pix(d, noise, x-d.OX, y-d.OY, 0)})
				} else {
					img.SetGray(x, y, color.Gray{junk()})
				}
			}
		}
		if d.Pad == 0 {
			return img
		}
		return img.SubImage(rect)
	case "YCbCr":
		img := image.NewYCbCr(full, ratios[d.Ratio])
		for i := range img.Y {
			img.Y[i] = junk()
		}
		for i := range img.Cb {
			img.Cb[i], img.Cr[i] = junk(), junk()
		}
		for y := rect.Min.Y; y < rect.Max.Y; y++ {
			for x := rect.Min.X; x < rect.Max.X; x++ {
				lx, ly := x-d.OX, y-d.OY
				img.Y[img.YOffset(x, y)] = pix(d, noise, lx, ly, 0)
				// chroma of the sample cell: defined by the top-left luma position of the cell so that all ratios agree on the picture
				ci := img.COffset(x, y)
				img.Cb[ci] = pix(d, noise, lx/4*4, ly/2*2, 1)
				img.Cr[ci] = pix(d, noise, lx/4*4, ly/2*2, 2)
			}
		}
		if d.Pad == 0 {
			return img
		}
		return img.SubImage(rect)
	}
	return nil
}

type hashArgs struct {
	Fn  string  `json:"fn"` // NewPHash64 | NewPHash64Alt | NewPHash256 | NewPHash256Alt
	Img ImgDesc `json:"img"`
}

// RunHash runs one perceptual-hash entry point on the described image.
func RunHash(a *hashArgs) (string, error) {
	img := BuildImage(&a.Img)
	switch a.Fn {
	case "NewPHash64":
		h, err := imagehash.NewPHash64(img)
		return fmt.Sprintf("%016x", uint64(h)), err
	case "NewPHash64Alt":
		h, err := imagehash.NewPHash64Alt(img)
		return fmt.Sprintf("%016x", uint64(h)), err
	case "NewPHash256":
		h, err := imagehash.NewPHash256(img)
		return fmt.Sprintf("%016x%016x%016x%016x", h[0], h[1], h[2], h[3]), err
	case "NewPHash256Alt":
		h, err := imagehash.NewPHash256Alt(img)
		return fmt.Sprintf("%016x%016x%016x%016x", h[0], h[1], h[2], h[3]), err
	case "EncodeBlurHashFast":
		return imagehash.EncodeBlurHashFast(img)
	case "NewAHash":
		h, err := imagehash.NewAHash(img)
		return fmt.Sprintf("%016x", uint64(h)), err
	}
	return "", fmt.Errorf("unknown hash function %q", a.Fn)
}

// results held to check that a returned result is never altered by later calls
var (
	heldMu sync.Mutex
	held   []struct {
		e   exif2.Exif
		ser string
	}
)

type heldPreview struct {
	b   []byte
	sum string
}

var heldPrev []heldPreview

// checkHeldPreviews re-digests every preview image returned earlier: a returned result must not change.
func checkHeldPreviews() (altered string) {
	heldMu.Lock()
	defer heldMu.Unlock()
	for i := range heldPrev {
		if now := fmt.Sprint(digest(heldPrev[i].b)["sha1"]); now != heldPrev[i].sum {
			altered = fmt.Sprintf("a preview image (%d bytes) returned %d calls ago now has other contents", len(heldPrev[i].b), len(heldPrev)-i)
			heldPrev[i].sum = now
		}
	}
	return
}

func holdExif(e exif2.Exif) (altered string) {
	heldMu.Lock()
	defer heldMu.Unlock()
	for i := range held {
		b, _ := json.Marshal(FlatExif(held[i].e))
		if string(b) != held[i].ser {
			altered = fmt.Sprintf("a result returned %d calls ago now serialises as %s, it was %s", len(held)-i, b, held[i].ser)
		}
	}
	b, _ := json.Marshal(FlatExif(e))
	held = append(held, struct {
		e   exif2.Exif
		ser string
	}{e, string(b)})
	if len(held) > 6 {
		held = held[1:]
	}
	return altered
}

func init() {
	Register("hash", func(op *core.Op, obs *core.Obs) {
		var a hashArgs
		json.Unmarshal(op.Args, &a)
		h, err := RunHash(&a)
		SetErr(obs, err, nil)
		JSON(obs, map[string]interface{}{"hash": h})
	})
	// poison: args {exifOff, fill, bits}: overwrite every pooled buffer the library keeps
	Register("poison", func(op *core.Op, obs *core.Obs) {
		var a struct {
			Off  uint32 `json:"off"`
			Fill byte   `json:"fill"`
			Bits uint64 `json:"bits"`
		}
		json.Unmarshal(op.Args, &a)
		exif2.VerifPoisonPool(a.Off, a.Fill)
		imagemeta.VerifPoisonReaders(a.Fill)
		jpeg.VerifPoisonReaders(a.Fill)
		isobmff.VerifPoisonReaders(a.Fill)
		imagehash.VerifPoisonPools(a.Bits)
		JSON(obs, map[string]interface{}{"ok": true})
	})
	// callhold: like "call" for the metadata entry points, additionally keeping the returned struct alive and
	// re-serialising the results held from earlier calls
	Register("callhold", func(op *core.Op, obs *core.Obs) {
		var a exifArgs
		json.Unmarshal(op.Args, &a)
		sr := NewSReader(op)
		e, err, _ := RunExifEntry(&a, sr)
		SetErr(obs, err, exifSentinels)
		res := map[string]interface{}{"f": FlatExif(e)}
		if alt := holdExif(e); alt != "" {
			res["altered"] = alt
		}
		if alt := checkHeldPreviews(); alt != "" {
			res["altered"] = alt
		}
		JSON(obs, res)
	})
	// prevhold: imagemeta.PreviewCR3, keeping the returned bytes alive; every later callhold / prevhold looks at them again
	Register("prevhold", func(op *core.Op, obs *core.Obs) {
		sr := NewSReader(op)
		b, err := imagemeta.PreviewCR3(sr)
		SetErr(obs, err, callSentinels)
		res := map[string]interface{}{"prev": digest(b)}
		if alt := checkHeldPreviews(); alt != "" {
			res["altered"] = alt
		}
		if len(b) > 0 {
			heldMu.Lock()
			heldPrev = append(heldPrev, heldPreview{b, fmt.Sprint(digest(b)["sha1"])})
			if len(heldPrev) > 64 {
				heldPrev = heldPrev[1:]
			}
			heldMu.Unlock()
		}
		JSON(obs, res)
	})
	// sequence: run the listed sub-operations one after the other in THIS process; every result is reported
	Register("sequence", func(op *core.Op, obs *core.Obs) {
		var a struct {
			Subs []core.Op `json:"subs"`
		}
		json.Unmarshal(op.Args, &a)
		type out struct {
			R   json.RawMessage `json:"r"`
			Err string          `json:"err"`
			Bad string          `json:"bad"`
		}
		results := make([]out, len(a.Subs))
		for i := range a.Subs {
			sub := a.Subs[i]
			o := &core.Obs{}
			h := registry[sub.Kind]
			Guard(o, func() { h(&sub, o) })
			results[i] = out{o.R, o.Err, o.Panic + o.Stall}
		}
		JSON(obs, results)
	})
	// concurrent: run the listed sub-operations on N goroutines at once; every result is reported
	Register("concurrent", func(op *core.Op, obs *core.Obs) {
		var a struct {
			Subs   []core.Op `json:"subs"`
			Rounds int       `json:"rounds"`
			Procs  int       `json:"procs"`
		}
		json.Unmarshal(op.Args, &a)
		if a.Procs > 0 {
			defer runtime.GOMAXPROCS(runtime.GOMAXPROCS(a.Procs))
		}
		if a.Rounds == 0 {
			a.Rounds = 1
		}
		type out struct {
			R   json.RawMessage `json:"r"`
			Err string          `json:"err"`
			Bad string          `json:"bad"`
		}
		results := make([][]out, len(a.Subs))
		var wg sync.WaitGroup
		start := make(chan struct{})
		for i := range a.Subs {
			results[i] = make([]out, a.Rounds)
			wg.Add(1)
			go func(i int) {
				defer wg.Done()
				<-start
				for k := 0; k < a.Rounds; k++ {
					sub := a.Subs[i]
					o := &core.Obs{}
					h := registry[sub.Kind]
					Guard(o, func() { h(&sub, o) })
					results[i][k] = out{o.R, o.Err, o.Panic + o.Stall}
				}
			}(i)
		}
		close(start)
		wg.Wait()
		JSON(obs, results)
	})
}

func init() {
	// median: the threshold functions on a coefficient sequence (and tiled to the fixed sizes)
	Register("median", func(op *core.Op, obs *core.Obs) {
		var a struct {
			C [][]float64 `json:"c"`
		}
		json.Unmarshal(op.Args, &a)
		type row struct {
			Generic float64   `json:"generic"`
			Fixed   []float64 `json:"fixed"` // MedianOfPixels64/256 (float64) and the float32 variants on the tiled sequence; empty if not tileable
		}
		var out []row
		for _, c := range a.C {
			r := row{Generic: transforms.MedianOfPixels(c)}
			if 64%len(c) == 0 {
				t64 := make([]float64, 0, 64)
				for len(t64) < 64 {
					t64 = append(t64, c...)
				}
				t256 := make([]float64, 0, 256)
				for len(t256) < 256 {
					t256 = append(t256, c...)
				}
				f64 := make([]float32, 64)
				for i, v := range t64 {
					f64[i] = float32(v)
				}
				f256 := make([]float32, 256)
				for i, v := range t256 {
					f256[i] = float32(v)
				}
				r.Fixed = []float64{transforms.MedianOfPixels64(t64), transforms.MedianOfPixels256(t256),
					float64(transforms32.MedianOfPixels64(f64)), float64(transforms32.MedianOfPixels256(f256))}
			}
			out = append(out, r)
		}
		JSON(obs, out)
	})
	// distance: PHash256 / PHash64 distances of described bit patterns
	Register("distance", func(op *core.Op, obs *core.Obs) {
		var a struct {
			D []struct {
				W1, B1, W2, B2 int
				Rel            string
			} `json:"d"`
			Seed int64 `json:"seed"`
		}
		json.Unmarshal(op.Args, &a)
		type row struct {
			D256, D256r, D64 int
		}
		var out []row
		for _, d := range a.D {
			var x, y imagehash.PHash256
			x[d.W1] = 1 << uint(d.B1)
			switch d.Rel {
			case "same":
				y = x
			case "complement":
				for k := range y {
					y[k] = ^x[k]
				}
			default:
				y[d.W2] = 1 << uint(d.B2)
			}
			r := row{D256: int(x.Distance(y)), D256r: int(y.Distance(x)), D64: -1}
			if d.W1 == 0 && (d.W2 == 0 || d.Rel != "bits") {
				r.D64 = int(imagehash.PHash64(x[0]).Distance(imagehash.PHash64(y[0])))
			}
			out = append(out, r)
		}
		// seeded dense patterns: distance = popcount(xor), symmetry, triangle inequality
		rng := rand.New(rand.NewSource(a.Seed))
		bad := []string{}
		pop := func(v uint64) (n int) {
			for ; v != 0; v &= v - 1 {
				n++
			}
			return
		}
		for k := 0; k < 3000; k++ {
			var p, q, t imagehash.PHash256
			for w := range p {
				p[w], q[w], t[w] = rng.Uint64(), rng.Uint64(), rng.Uint64()
				if k%5 == 0 {
					q[w] = p[w] ^ (1 << uint(rng.Intn(64)))
				}
			}
			want := 0
			for w := range p {
				want += pop(p[w] ^ q[w])
			}
			if int(p.Distance(q)) != want || int(q.Distance(p)) != want || p.Distance(p) != 0 {
				bad = append(bad, fmt.Sprintf("PHash256 distance %d / %d, popcount(xor) = %d", p.Distance(q), q.Distance(p), want))
			}
			if p.Distance(t) > p.Distance(q)+q.Distance(t) {
				bad = append(bad, "PHash256 triangle inequality violated")
			}
			a64, b64 := imagehash.PHash64(p[0]), imagehash.PHash64(q[0])
			if int(a64.Distance(b64)) != pop(p[0]^q[0]) || int(b64.Distance(a64)) != pop(p[0]^q[0]) || a64.Distance(a64) != 0 {
				bad = append(bad, fmt.Sprintf("PHash64 distance %d, popcount(xor) = %d", a64.Distance(b64), pop(p[0]^q[0])))
			}
			if len(bad) > 10 {
				break
			}
		}
		JSON(obs, map[string]interface{}{"rows": out, "bad": bad})
	})
}

// naive float64 DCT-II coefficients (unscaled) of the luminance of an RGBA/NRGBA/Gray image:
// C[v][u] = sum_y sum_x g[y][x] cos(pi(2x+1)u/2N) cos(pi(2y+1)v/2N), flattened row-major (v*m+u), m = 8 or 16
func oracleCoefficients(img image.Image, n, m int) ([]float64, float64) {
	b := img.Bounds()
	g := make([]float64, n*n)
	l1 := 0.0
	for y := 0; y < n; y++ {
		for x := 0; x < n; x++ {
			r, gg, bb, _ := img.At(b.Min.X+x, b.Min.Y+y).RGBA()
			v := 0.299*float64(r>>8) + 0.587*float64(gg>>8) + 0.114*float64(bb>>8)
			g[y*n+x] = v
			l1 += math.Abs(v)
		}
	}
	cosT := make([]float64, n*m)
	for k := 0; k < m; k++ {
		for x := 0; x < n; x++ {
			cosT[k*n+x] = math.Cos(math.Pi * float64(2*x+1) * float64(k) / float64(2*n))
		}
	}
	rows := make([]float64, n*m) // rows[y][u]
	for y := 0; y < n; y++ {
		for u := 0; u < m; u++ {
			s := 0.0
			for x := 0; x < n; x++ {
				s += g[y*n+x] * cosT[u*n+x]
			}
			rows[y*m+u] = s
		}
	}
	c := make([]float64, m*m)
	for v := 0; v < m; v++ {
		for u := 0; u < m; u++ {
			s := 0.0
			for y := 0; y < n; y++ {
				s += rows[y*m+u] * cosT[v*n+y]
			}
			c[v*m+u] = s
		}
	}
	return c, l1
}

func init() {
	Register("hashoracle", func(op *core.Op, obs *core.Obs) {
		var a struct {
			Img ImgDesc `json:"img"`
		}
		json.Unmarshal(op.Args, &a)
		img := BuildImage(&a.Img)
		n, m := a.Img.W, 8
		fns := []string{"NewPHash64", "NewPHash64Alt"}
		if n == 256 {
			m = 16
			fns = []string{"NewPHash256", "NewPHash256Alt"}
		}
		c, l1 := oracleCoefficients(img, n, m)
		res := map[string]interface{}{"c": c, "l1": l1}
		for _, fn := range fns {
			h, err := RunHash(&hashArgs{Fn: fn, Img: a.Img})
			if err != nil {
				res[fn] = "error: " + err.Error()
			} else {
				res[fn] = h
			}
		}
		JSON(obs, res)
	})
}

// YGeom is one plane geometry emitted by spec/YCbCr.tla.
type YGeom struct {
	Ratio int `json:"ratio"`
	MinX  int `json:"minX"`
	MinY  int `json:"minY"`
	W     int `json:"w"`
	YS    int `json:"ys"`
	CS    int `json:"cs"`
}

// buildYCbCr lays the planes out exactly as the geometry says, inside larger backing arrays with guard zones.
func buildYCbCr(g *YGeom, seed int64, junk int64) (*image.YCbCr, []byte, []byte, []byte, int) {
	const guard = 4096
	rect := image.Rect(g.MinX, g.MinY, g.MinX+g.W, g.MinY+g.W)
	proto := &image.YCbCr{SubsampleRatio: ratios[g.Ratio], YStride: g.YS, CStride: g.CS, Rect: rect}
	// plane lengths: rows needed times stride
	ch := 0
	for y := rect.Min.Y; y < rect.Max.Y; y++ {
		if r := proto.COffset(rect.Min.X, y)/g.CS + 1; r > ch {
			ch = r
		}
	}
	lenY, lenC := g.YS*g.W, g.CS*ch
	jr := rand.New(rand.NewSource(junk))
	mk := func(n int) []byte {
		b := make([]byte, n+2*guard)
		jr.Read(b)
		return b
	}
	by, bcb, bcr := mk(lenY), mk(lenC), mk(lenC)
	img := &image.YCbCr{Y: by[guard : guard+lenY : guard+lenY], Cb: bcb[guard : guard+lenC : guard+lenC], Cr: bcr[guard : guard+lenC : guard+lenC],
		YStride: g.YS, CStride: g.CS, SubsampleRatio: ratios[g.Ratio], Rect: rect}
	cr := rand.New(rand.NewSource(seed))
	content := make([]byte, g.W*g.W*3)
	cr.Read(content)
	for y := 0; y < g.W; y++ {
		for x := 0; x < g.W; x++ {
			img.Y[img.YOffset(g.MinX+x, g.MinY+y)] = content[(y*g.W+x)*3]
		}
	}
	// chroma cells are written once per cell (first luma position that maps to it, row-major)
	seen := map[int]bool{}
	for y := 0; y < g.W; y++ {
		for x := 0; x < g.W; x++ {
			ci := img.COffset(g.MinX+x, g.MinY+y)
			if !seen[ci] {
				seen[ci] = true
				img.Cb[ci], img.Cr[ci] = content[(y*g.W+x)*3+1], content[(y*g.W+x)*3+2]
			}
		}
	}
	return img, by, bcb, bcr, guard
}

func grayOf(yy, cb, cr uint8) float64 {
	yy1 := int32(yy) * 0x10101
	cb1 := int32(cb) - 128
	cr1 := int32(cr) - 128
	r := yy1 + 91881*cr1
	g := yy1 - 22554*cb1 - 46802*cr1
	b := yy1 + 116130*cb1
	return 0.299*float64(r/257) + 0.587*float64(g/257) + 0.114*float64(b>>8)
}

func init() {
	Register("ycbcr", func(op *core.Op, obs *core.Obs) {
		var a struct {
			G    YGeom `json:"g"`
			Seed int64 `json:"seed"`
		}
		json.Unmarshal(op.Args, &a)
		g := &a.G
		const dguard = 4096
		run := func(junk int64) (out []float32, bad []string, srcTouched bool) {
			img, by, bcb, bcr, guard := buildYCbCr(g, a.Seed, junk)
			snap := func(b []byte) ([]byte, []byte) {
				return append([]byte{}, b[:guard]...), append([]byte{}, b[len(b)-guard:]...)
			}
			y0, y1 := snap(by)
			cb0, cb1 := snap(bcb)
			cr0, cr1 := snap(bcr)
			back := make([]float32, g.W*g.W+2*dguard)
			for i := range back {
				back[i] = -12345.5
			}
			dst := back[dguard : dguard+g.W*g.W]
			transforms32.ImageToGray(img, &dst)
			for i := 0; i < dguard; i++ {
				if back[i] != -12345.5 || back[len(back)-1-i] != -12345.5 {
					bad = append(bad, fmt.Sprintf("the conversion wrote outside the %d-pixel destination buffer (guard cell %d)", g.W*g.W, i))
					break
				}
			}
			eq := func(a, b []byte) bool { return string(a) == string(b) }
			ya, yb := snap(by)
			cba, cbb := snap(bcb)
			cra, crb := snap(bcr)
			if !eq(y0, ya) || !eq(y1, yb) || !eq(cb0, cba) || !eq(cb1, cbb) || !eq(cr0, cra) || !eq(cr1, crb) {
				srcTouched = true
			}
			// the float64 conversion behind NewPHash64 / NewPHash256
			p64 := make([]float64, g.W*g.W)
			transforms.Rgb2GrayFast(img, &p64)
			for y := 0; y < g.W && len(bad) < 4; y++ {
				for x := 0; x < g.W; x++ {
					c := img.YCbCrAt(g.MinX+x, g.MinY+y)
					if want := grayOf(c.Y, c.Cb, c.Cr); math.Abs(p64[y*g.W+x]-want) > 2.0 {
						bad = append(bad, fmt.Sprintf("float64 conversion, pixel (%d,%d): luminance %.1f, the pixel at that coordinate gives %.1f", x, y, p64[y*g.W+x], want))
						break
					}
				}
			}
			// the portable conversion and the independent per-pixel expectation
			port := make([]float32, g.W*g.W)
			transforms32.VerifPortableYCbCrToGray(img, port)
			for y := 0; y < g.W && len(bad) < 4; y++ {
				for x := 0; x < g.W; x++ {
					c := img.YCbCrAt(g.MinX+x, g.MinY+y)
					want := grayOf(c.Y, c.Cb, c.Cr)
					if math.Abs(float64(dst[y*g.W+x])-want) > 2.0 {
						bad = append(bad, fmt.Sprintf("pixel (%d,%d): luminance %.1f, the pixel at that coordinate gives %.1f", x, y, dst[y*g.W+x], want))
						break
					}
					if math.Abs(float64(dst[y*g.W+x])-float64(port[y*g.W+x])) > 2.0 {
						bad = append(bad, fmt.Sprintf("pixel (%d,%d): luminance %.1f, portable conversion %.1f", x, y, dst[y*g.W+x], port[y*g.W+x]))
						break
					}
				}
			}
			return append([]float32{}, dst...), bad, srcTouched
		}
		out1, bad, touched := run(1)
		out2, _, _ := run(2) // same rectangle content, different bytes around the planes
		for i := range out1 {
			if out1[i] != out2[i] {
				bad = append(bad, fmt.Sprintf("pixel %d depends on bytes outside the image planes (%.1f vs %.1f with other guard-zone contents)", i, out1[i], out2[i]))
				break
			}
		}
		if touched {
			bad = append(bad, "the conversion modified bytes around the source planes")
		}
		// the same image with planes that END at the last sample of the rectangle (length = capacity): nothing lies behind
		func() {
			img, _, _, _, _ := buildYCbCr(g, a.Seed, 1)
			last := img.Rect.Max.Sub(image.Pt(1, 1))
			tight := func(p []byte, n int) []byte { return append(make([]byte, 0, n), p[:n]...) }
			img.Y = tight(img.Y, img.YOffset(last.X, last.Y)+1)
			img.Cb = tight(img.Cb, img.COffset(last.X, last.Y)+1)
			img.Cr = tight(img.Cr, img.COffset(last.X, last.Y)+1)
			for name, conv := range map[string]func(){
				"float32 conversion": func() { d := make([]float32, g.W*g.W); transforms32.ImageToGray(img, &d) },
				"float64 conversion": func() { d := make([]float64, g.W*g.W); transforms.Rgb2GrayFast(img, &d) },
			} {
				func() {
					defer func() {
						if p := recover(); p != nil {
							bad = append(bad, fmt.Sprintf("%s panics on planes that end at the last sample of the rectangle: %v", name, p))
						}
					}()
					conv()
				}()
			}
		}()
		JSON(obs, map[string]interface{}{"bad": bad, "asm": transforms32.FlagUseASM})
	})
}
