package ops

import (
	"encoding/json"
	"fmt"
	"image"
	"image/color"
	"math"
	"math/rand"
	"runtime"
	"sync"

	"github.com/evanoberholster/imagemeta"
	"github.com/evanoberholster/imagemeta/exif2"
	"github.com/evanoberholster/imagemeta/imagehash"
	"github.com/evanoberholster/imagemeta/isobmff"
	"github.com/evanoberholster/imagemeta/jpeg"
	"verif/core"
)

// ImgDesc describes an image to build inside the worker (deterministic in Seed).
type ImgDesc struct {
	Kind    string `json:"kind"`  // RGBA | NRGBA | Gray | YCbCr | nil
	Ratio   int    `json:"ratio"` // YCbCr: 444 422 420 440 411 410
	W       int    `json:"w"`
	H       int    `json:"h"`
	OX      int    `json:"ox"` // rectangle origin
	OY      int    `json:"oy"`
	Pad     int    `json:"pad"`     // extra columns/rows of backing image around the rectangle (SubImage)
	Content string `json:"content"` // smooth | noise | const | extreme | ramp
	Seed    int64  `json:"seed"`
}

var ratios = map[int]image.YCbCrSubsampleRatio{444: image.YCbCrSubsampleRatio444, 422: image.YCbCrSubsampleRatio422, 420: image.YCbCrSubsampleRatio420,
	440: image.YCbCrSubsampleRatio440, 411: image.YCbCrSubsampleRatio411, 410: image.YCbCrSubsampleRatio410}

// pixel value of the logical image at (x, y) relative to the rectangle origin, channel c
func pix(d *ImgDesc, rng []byte, x, y, c int) uint8 {
	switch d.Content {
	case "const":
		return uint8(40 + 60*c + int(d.Seed%50))
	case "extreme":
		if (x/8+y/8+c)%2 == 0 {
			return 255
		}
		return 0
	case "ramp":
		return uint8((x*3 + y*5 + c*40 + int(d.Seed)) % 256)
	case "smooth":
		v := 128 + 90*math.Sin(float64(x+int(d.Seed%17))/9.0+float64(c)) + 30*math.Cos(float64(y)/5.0)
		return uint8(math.Max(0, math.Min(255, v)))
	}
	return rng[(y*d.W+x)*3+c]
}

// BuildImage constructs the described image. The logical pixels depend only on (Content, Seed, W, H):
// origin, padding and image type change the storage, not the picture.
func BuildImage(d *ImgDesc) image.Image {
	if d.Kind == "nil" {
		return nil
	}
	r := rand.New(rand.NewSource(d.Seed))
	noise := make([]byte, d.W*d.H*3+3)
	r.Read(noise)
	full := image.Rect(d.OX-d.Pad, d.OY-d.Pad, d.OX+d.W+d.Pad, d.OY+d.H+d.Pad)
	rect := image.Rect(d.OX, d.OY, d.OX+d.W, d.OY+d.H)
	junk := func() uint8 { return uint8(r.Intn(256)) }
	switch d.Kind {
	case "RGBA", "NRGBA":
		var img interface {
			image.Image
			Set(x, y int, c color.Color)
		}
		if d.Kind == "RGBA" {
			img = image.NewRGBA(full)
		} else {
			img = image.NewNRGBA(full)
		}
		for y := full.Min.Y; y < full.Max.Y; y++ {
			for x := full.Min.X; x < full.Max.X; x++ {
				if (image.Point{x, y}).In(rect) {
					lx, ly := x-d.OX, y-d.OY
					img.Set(x, y, color.RGBA{pix(d, noise, lx, ly, 0), pix(d, noise, lx, ly, 1), pix(d, noise, lx, ly, 2), 255})
				} else {
					img.Set(x, y, color.RGBA{junk(), junk(), junk(), 255})
				}
			}
		}
		if d.Pad == 0 {
			return img
		}
		return img.(interface {
			SubImage(image.Rectangle) image.Image
		}).SubImage(rect)
	case "Gray":
		img := image.NewGray(full)
		for y := full.Min.Y; y < full.Max.Y; y++ {
			for x := full.Min.X; x < full.Max.X; x++ {
				if (image.Point{x, y}).In(rect) {
					img.SetGray(x, y, color.Gray{pix(d, noise, x-d.OX, y-d.OY, 0)})
				} else {
					img.SetGray(x, y, color.Gray{junk()})
				}
			}
		}
		if d.Pad == 0 {
			return img
		}
		return img.SubImage(rect)
	case "YCbCr":
		img := image.NewYCbCr(full, ratios[d.Ratio])
		for i := range img.Y {
			img.Y[i] = junk()
		}
		for i := range img.Cb {
			img.Cb[i], img.Cr[i] = junk(), junk()
		}
		for y := rect.Min.Y; y < rect.Max.Y; y++ {
			for x := rect.Min.X; x < rect.Max.X; x++ {
				lx, ly := x-d.OX, y-d.OY
				img.Y[img.YOffset(x, y)] = pix(d, noise, lx, ly, 0)
				// chroma of the sample cell: defined by the top-left luma position of the cell so that all ratios agree on the picture
				ci := img.COffset(x, y)
				img.Cb[ci] = pix(d, noise, lx/4*4, ly/2*2, 1)
				img.Cr[ci] = pix(d, noise, lx/4*4, ly/2*2, 2)
			}
		}
		if d.Pad == 0 {
			return img
		}
		return img.SubImage(rect)
	}
	return nil
}

type hashArgs struct {
	Fn  string  `json:"fn"` // NewPHash64 | NewPHash64Alt | NewPHash256 | NewPHash256Alt
	Img ImgDesc `json:"img"`
}

// RunHash runs one perceptual-hash entry point on the described image.
func RunHash(a *hashArgs) (string, error) {
	img := BuildImage(&a.Img)
	switch a.Fn {
	case "NewPHash64":
		h, err := imagehash.NewPHash64(img)
		return fmt.Sprintf("%016x", uint64(h)), err
	case "NewPHash64Alt":
		h, err := imagehash.NewPHash64Alt(img)
		return fmt.Sprintf("%016x", uint64(h)), err
	case "NewPHash256":
		h, err := imagehash.NewPHash256(img)
		return fmt.Sprintf("%016x%016x%016x%016x", h[0], h[1], h[2], h[3]), err
	case "NewPHash256Alt":
		h, err := imagehash.NewPHash256Alt(img)
		return fmt.Sprintf("%016x%016x%016x%016x", h[0], h[1], h[2], h[3]), err
	}
	return "", fmt.Errorf("unknown hash function %q", a.Fn)
}

// results held to check that a returned result is never altered by later calls
var (
	heldMu sync.Mutex
	held   []struct {
		e   exif2.Exif
		ser string
	}
)

func holdExif(e exif2.Exif) (altered string) {
	heldMu.Lock()
	defer heldMu.Unlock()
	for i := range held {
		b, _ := json.Marshal(FlatExif(held[i].e))
		if string(b) != held[i].ser {
			altered = fmt.Sprintf("a result returned %d calls ago now serialises as %s, it was %s", len(held)-i, b, held[i].ser)
		}
	}
	b, _ := json.Marshal(FlatExif(e))
	held = append(held, struct {
		e   exif2.Exif
		ser string
	}{e, string(b)})
	if len(held) > 6 {
		held = held[1:]
	}
	return altered
}

func init() {
	Register("hash", func(op *core.Op, obs *core.Obs) {
		var a hashArgs
		json.Unmarshal(op.Args, &a)
		h, err := RunHash(&a)
		SetErr(obs, err, nil)
		JSON(obs, map[string]interface{}{"hash": h})
	})
	// poison: args {exifOff, fill, bits}: overwrite every pooled buffer the library keeps
	Register("poison", func(op *core.Op, obs *core.Obs) {
		var a struct {
			Off  uint32 `json:"off"`
			Fill byte   `json:"fill"`
			Bits uint64 `json:"bits"`
		}
		json.Unmarshal(op.Args, &a)
		exif2.VerifPoisonPool(a.Off, a.Fill)
		imagemeta.VerifPoisonReaders(a.Fill)
		jpeg.VerifPoisonReaders(a.Fill)
		isobmff.VerifPoisonReaders(a.Fill)
		imagehash.VerifPoisonPools(a.Bits)
		JSON(obs, map[string]interface{}{"ok": true})
	})
	// callhold: like "call" for the metadata entry points, additionally keeping the returned struct alive and
	// re-serialising the results held from earlier calls
	Register("callhold", func(op *core.Op, obs *core.Obs) {
		var a exifArgs
		json.Unmarshal(op.Args, &a)
		sr := NewSReader(op)
		e, err, _ := RunExifEntry(&a, sr)
		SetErr(obs, err, exifSentinels)
		res := map[string]interface{}{"f": FlatExif(e)}
		if alt := holdExif(e); alt != "" {
			res["altered"] = alt
		}
		JSON(obs, res)
	})
	// concurrent: run the listed sub-operations on N goroutines at once; every result is reported
	Register("concurrent", func(op *core.Op, obs *core.Obs) {
		var a struct {
			Subs   []core.Op `json:"subs"`
			Rounds int       `json:"rounds"`
			Procs  int       `json:"procs"`
		}
		json.Unmarshal(op.Args, &a)
		if a.Procs > 0 {
			defer runtime.GOMAXPROCS(runtime.GOMAXPROCS(a.Procs))
		}
		if a.Rounds == 0 {
			a.Rounds = 1
		}
		type out struct {
			R   json.RawMessage `json:"r"`
			Err string          `json:"err"`
			Bad string          `json:"bad"`
		}
		results := make([][]out, len(a.Subs))
		var wg sync.WaitGroup
		start := make(chan struct{})
		for i := range a.Subs {
			results[i] = make([]out, a.Rounds)
			wg.Add(1)
			go func(i int) {
				defer wg.Done()
				<-start
				for k := 0; k < a.Rounds; k++ {
					sub := a.Subs[i]
					o := &core.Obs{}
					h := registry[sub.Kind]
					Guard(o, func() { h(&sub, o) })
					results[i][k] = out{o.R, o.Err, o.Panic + o.Stall}
				}
			}(i)
		}
		close(start)
		wg.Wait()
		JSON(obs, results)
	})
}
