package ops

import (
	"bufio"
	"encoding/hex"
	"encoding/json"
	"io"

	"github.com/evanoberholster/imagemeta/imagetype"
	"github.com/evanoberholster/imagemeta/meta"
	"github.com/evanoberholster/imagemeta/tiff"
	"verif/core"
)

// TiffScanR is the observation of one ScanTiffHeader call.
type TiffScanR struct {
	Off      uint32 `json:"off"`
	BO       int    `json:"bo"` // 1 = little endian, 2 = big endian
	Ifd0     uint32 `json:"ifd0"`
	FirstIfd int    `json:"firstIfd"`
	Len      uint32 `json:"len"`
	Next     string `json:"next"` // hex of the next 4 bytes readable after the call (bufio mode)
}

func init() {
	Register("tiffscan", func(op *core.Op, obs *core.Obs) {
		sr := NewSReader(op)
		var a struct {
			Buf int `json:"buf"`
		}
		if len(op.Args) > 0 {
			json.Unmarshal(op.Args, &a)
		}
		if a.Buf < 32 {
			a.Buf = 4096
		}
		// the caller's own bufio.Reader (any size that can hold the 32-byte window)
		br := bufio.NewReaderSize(sr, a.Buf)
		h, err := tiff.ScanTiffHeader(br, imagetype.ImageUnknown)
		SetErr(obs, err, map[string]error{"ErrNoExif": meta.ErrNoExif})
		r := TiffScanR{Off: h.TiffHeaderOffset, BO: int(h.ByteOrder), Ifd0: h.FirstIfdOffset, FirstIfd: int(h.FirstIfd), Len: h.ExifLength}
		if err == nil {
			var nb [4]byte
			n, _ := io.ReadFull(br, nb[:])
			r.Next = hex.EncodeToString(nb[:n])
		}
		obs.Req, obs.Reads = sr.Req, sr.Reads
		JSON(obs, r)
	})
}
