package props

import (
	"encoding/json"
	"fmt"
	"math"
	"path/filepath"
	"sort"
	"time"

	"verif/core"
	"verif/gen"
)

// loadExifCases runs the Exif specification with one cfg and returns the emitted terminal states.
func loadExifCases(r *core.Run, cfg string, workers int) ([]gen.ExifCase, bool) {
	t, err := core.RunTLC(core.TLCOpts{Module: "MC_Exif", Cfg: cfg, Workers: workers, Timeout: 40 * time.Minute})
	defer t.Cleanup()
	if err != nil || !t.OK {
		r.Machinery("TLC run on Exif (%s) failed (spec-level, not a verdict about the code): %v %s", cfg, err, tail(t))
		return nil, false
	}
	r.AddTLC("Exif/"+cfg, t)
	var cases []gen.ExifCase
	_, err = core.ReadEmitted(filepath.Join(t.Dir, "emit.ndjson"), func(raw json.RawMessage) error {
		var c gen.ExifCase
		if e := json.Unmarshal(raw, &c); e != nil {
			return e
		}
		c.ExpandBulk()
		cases = append(cases, c)
		return nil
	})
	if err != nil || len(cases) == 0 {
		r.Machinery("reading emitted Exif cases: %v (n=%d)", err, len(cases))
		return nil, false
	}
	// deterministic order regardless of TLC worker scheduling
	sort.SliceStable(cases, func(i, j int) bool { return exifCaseKey(&cases[i]) < exifCaseKey(&cases[j]) })
	return cases, true
}

func exifCaseKey(c *gen.ExifCase) string {
	b, _ := json.Marshal([]interface{}{c.Pick, c.Bulk, c.Pad, c.Ifd0At, c.Variant, c.Lay})
	return string(b)
}

const exifTimeFmt = "2006-01-02T15:04:05.000000000Z07:00"

func fmtTime(t time.Time) string {
	n, _ := t.Zone()
	return t.Format(exifTimeFmt) + "|" + n
}

// expectedExif turns the fields of the entries the specification says are reported into the
// flat record a correct decoder returns (zero values for everything absent). skip lists keys whose
// expected value the property does not determine (composite dates without their date part).
func expectedExif(fields map[string]interface{}) (exp map[string]interface{}, skip map[string]bool) {
	exp = map[string]interface{}{
		"Make": "", "Model": "", "Software": "", "Artist": "", "Copyright": "", "ImageDescription": "", "LensMake": "", "LensModel": "",
		"LensSerial": "", "CameraSerial": "", "CameraMake": 0.0, "CameraModel": 0.0,
		"ImageWidth": 0.0, "ImageHeight": 0.0, "Orientation": 0.0, "StripOffsets": 0.0, "StripByteCounts": 0.0, "ISOSpeed": 0.0,
		"ExposureProgram": 0.0, "ExposureMode": 0.0, "MeteringMode": 0.0, "Flash": 0.0, "ExposureBias": 0.0,
		"ExposureTime": 0.0, "FNumber": 0.0, "FocalLength": 0.0, "FocalLengthIn35mmFormat": 0.0,
		"GPS.lat": 0.0, "GPS.lon": 0.0, "GPS.alt": 0.0,
		"LensInfo": []interface{}{0.0, 0.0, 0.0, 0.0, 0.0, 0.0, 0.0, 0.0},
	}
	skip = map[string]bool{"ImageType": true}
	for k, v := range fields {
		if _, plain := exp[k]; plain {
			exp[k] = v
		}
		if len(k) > 6 && k[:6] == "~skip:" {
			skip[k[6:]] = true
		}
	}
	neg := func(k string) float64 {
		if b, ok := fields[k].(bool); ok && b {
			return -1
		}
		return 1
	}
	if v, ok := fields["GPS.lat"].(float64); ok {
		exp["GPS.lat"] = neg("GPS.latneg") * v
	}
	if v, ok := fields["GPS.lon"].(float64); ok {
		exp["GPS.lon"] = neg("GPS.lonneg") * v
	}
	if v, ok := fields["GPS.alt"].(float64); ok {
		exp["GPS.alt"] = neg("GPS.altneg") * v
	}
	for _, name := range []string{"ModifyDate", "DateTimeOriginal", "CreateDate"} {
		d, hasDate := fields[name+".date"].(gen.DateParts)
		ms, hasMs := fields[name+".ms"].(float64)
		zone, hasZone := fields[name+".zone"].(float64)
		zn, _ := fields[name+".zonename"].(string)
		switch {
		case hasDate:
			loc := time.UTC
			if hasZone {
				loc = time.FixedZone(zn, int(zone))
			}
			exp[name] = fmtTime(time.Date(d.Y, time.Month(d.Mo), d.D, d.H, d.Mi, d.S, int(ms)*1000000, loc))
		case !hasMs && !hasZone:
			exp[name] = fmtTime(time.Time{})
		default:
			skip[name] = true // sub-seconds or zone without the date they qualify
		}
	}
	gd, hasGD := fields["GPS.date"].(gen.DateParts)
	gt, hasGT := fields["GPS.time"].(float64)
	switch {
	case hasGD:
		exp["GPS.date"] = fmtTime(time.Date(gd.Y, time.Month(gd.Mo), gd.D, 0, 0, 0, 0, time.UTC).Add(time.Duration(gt) * time.Second))
	case !hasGT:
		exp["GPS.date"] = fmtTime(time.Time{})
	default:
		skip["GPS.date"] = true
	}
	return exp, skip
}

var f32Fields = map[string]bool{"ExposureTime": true, "FNumber": true, "FocalLength": true, "FocalLengthIn35mmFormat": true, "GPS.alt": true}

func numEq(key string, a, b float64) bool {
	if a == b {
		return true
	}
	tol := 1e-12
	if f32Fields[key] {
		tol = 3e-7
	}
	return math.Abs(a-b) <= tol*math.Max(math.Abs(a), math.Abs(b))
}

// valEq compares an observed flat value with an expected one at the precision of the reported type.
func valEq(key string, got, want interface{}) bool {
	switch w := want.(type) {
	case float64:
		g, ok := got.(float64)
		return ok && numEq(key, g, w)
	case string:
		g, ok := got.(string)
		return ok && g == w
	case []interface{}:
		g, ok := got.([]interface{})
		if !ok || len(g) != len(w) {
			return false
		}
		for i := range w {
			if !valEq(key, g[i], w[i]) {
				return false
			}
		}
		return true
	}
	return fmt.Sprint(got) == fmt.Sprint(want)
}

// diffFlat returns the keys (sorted) on which the observed record differs from the expected one.
func diffFlat(got, exp map[string]interface{}, skip map[string]bool) []string {
	var bad []string
	for k, w := range exp {
		if skip[k] {
			continue
		}
		if !valEq(k, got[k], w) {
			bad = append(bad, k)
		}
	}
	sort.Strings(bad)
	return bad
}

// sameFlat compares two observed records completely (two runs of the same build).
func sameFlat(a, b map[string]interface{}, skip map[string]bool) []string {
	var bad []string
	for k, av := range a {
		if skip[k] {
			continue
		}
		ab, _ := json.Marshal(av)
		bb, _ := json.Marshal(b[k])
		if string(ab) != string(bb) {
			bad = append(bad, k)
		}
	}
	sort.Strings(bad)
	return bad
}

// fieldClass names the encoding class of the entry that feeds a reported field (for violation keys).
func fieldClass(c *gen.ExifCase, bind map[int]*gen.Bound, field string) string {
	base := field
	for _, e := range c.Pick {
		b := bind[e.Key]
		if b == nil {
			continue
		}
		for f := range b.Fields {
			if f == base || len(f) > len(base) && f[:len(base)] == base && f[len(base)] == '.' {
				return e.Ifd + "/" + e.Cls
			}
		}
	}
	return "absent"
}
