package props

import (
	"encoding/json"
	"fmt"
	"path/filepath"
	"time"

	"verif/core"
)

func init() { Register("C09", runC09) }

// index of the library's ImageType constants (documented order in imagetype.go's doc comment)
var specTypeIndex = map[string]uint8{"Unknown": 0, "JPEG": 1, "PNG": 2, "GIF": 3, "BMP": 4, "WebP": 5, "HEIF": 6, "TIFF": 8,
	"PanaRAW": 11, "CRW": 13, "CR3": 15, "CR2": 16, "PSD": 17, "XMP": 18, "AVIF": 19, "PPM": 20}

type sniffCase struct {
	h    [24]byte
	want string
	src  string
}

func runC09(r *core.Run) {
	r.Rule = "TLC enumerates, for each of 27 canonical headers, all 24x256 single-byte perturbations (and all byte-range crossovers with every other canonical header); every derived header is one case with the type the specification assigns; distinct = distinct 24-byte headers"
	var cases []sniffCase
	seen := map[[24]byte]bool{}
	modes := []string{"perturb", "cross"}
	for _, mode := range modes {
		t, err := core.RunTLC(core.TLCOpts{Module: "ImageType", Cfg: "ImageType." + mode + ".cfg", Workers: 8, Timeout: 20 * time.Minute})
		if err != nil || !t.OK {
			r.Machinery("TLC run ImageType(%s) failed (spec-level, not a verdict about the code): %v %s", mode, err, tail(t))
			t.Cleanup()
			return
		}
		r.AddTLC("ImageType."+mode, t)
		_, err = core.ReadEmitted(filepath.Join(t.Dir, "emit.ndjson"), func(raw json.RawMessage) error {
			var rec struct {
				Mode  string          `json:"mode"`
				C     int             `json:"c"`
				H     []int           `json:"h"`
				Canon [][]int         `json:"canon"`
				Res   json.RawMessage `json:"res"`
			}
			if e := json.Unmarshal(raw, &rec); e != nil {
				return e
			}
			add := func(h [24]byte, want, src string) {
				if !seen[h] {
					seen[h] = true
					cases = append(cases, sniffCase{h, want, src})
				}
			}
			var base [24]byte
			for i, v := range rec.H {
				base[i] = byte(v)
			}
			if rec.Mode == "perturb" {
				var res [][]string
				if e := json.Unmarshal(rec.Res, &res); e != nil {
					return e
				}
				for p := 0; p < 24; p++ {
					for v := 0; v < 256; v++ {
						h := base
						h[p] = byte(v)
						add(h, res[p][v], fmt.Sprintf("perturb c=%d p=%d v=%d", rec.C, p, v))
					}
				}
			} else {
				var res [][][]string
				if e := json.Unmarshal(rec.Res, &res); e != nil {
					return e
				}
				for d := range res {
					for lo := 0; lo < 24; lo++ {
						for hi := lo; hi < 24; hi++ {
							h := base
							for k := lo; k <= hi; k++ {
								h[k] = byte(rec.Canon[d][k])
							}
							add(h, res[d][lo][hi], fmt.Sprintf("cross c=%d d=%d lo=%d hi=%d", rec.C, d+1, lo, hi))
						}
					}
				}
			}
			return nil
		})
		t.Cleanup()
		if err != nil {
			r.Machinery("reading emitted cases: %v", err)
			return
		}
	}
	if len(cases) < 100000 {
		r.Machinery("too few cases emitted: %d", len(cases))
		return
	}
	// batches of 512 headers per op
	const batch = 512
	var ops []core.Op
	for i := 0; i < len(cases); i += batch {
		j := i + batch
		if j > len(cases) {
			j = len(cases)
		}
		data := make([]byte, 0, (j-i)*24)
		for k := i; k < j; k++ {
			data = append(data, cases[k].h[:]...)
		}
		ops = append(ops, core.Op{ID: len(ops), Kind: "sniff", Data: data, Cut: -1})
	}
	nb := len(ops)
	// short streams: prefixes of every canonical header (first case of each perturb record is not needed; take 60 spread cases)
	for i := 0; i < len(cases); i += len(cases)/60 + 1 {
		ops = append(ops, core.Op{ID: len(ops), Kind: "sniffshort", Data: cases[i].h[:], Cut: -1})
	}
	obs, err := core.RunOps(ops, core.WorkerOpts{})
	if err != nil {
		r.Machinery("worker: %v", err)
		return
	}
	for oi := range obs {
		o := &obs[oi]
		if o.Bad() {
			r.Violate("imagetype:"+o.BadKind()+"@"+o.Site, fmt.Sprintf("%s %s%s", o.BadKind(), o.Panic, o.Crash), replayOf(&ops[oi], o, nil))
			continue
		}
		var sr struct {
			T   []uint8  `json:"t"`
			Bad []string `json:"bad"`
		}
		json.Unmarshal(o.R, &sr)
		for _, b := range sr.Bad {
			var idx int
			var what string
			fmt.Sscanf(b, "%d:", &idx)
			if k := indexByte(b, ':'); k >= 0 {
				what = b[k+1:]
			}
			key := "imagetype:entry-points-disagree"
			if oi >= nb {
				key = "imagetype:short-stream-accepted"
			}
			r.Violate(key+":"+firstWord(what), what, replayOf(&ops[oi], nil, map[string]interface{}{"index_in_batch": idx}))
		}
		if oi >= nb {
			r.Cases++
			continue
		}
		for k, tv := range sr.T {
			c := &cases[oi*batch+k]
			r.Cases++
			want, ok := specTypeIndex[c.want]
			if !ok {
				r.Machinery("spec type %q unknown to the harness", c.want)
				return
			}
			if tv != want {
				r.Violate(fmt.Sprintf("imagetype.Buf:type:%s-as-%d", c.want, tv),
					fmt.Sprintf("header (%s) classified as type %d, specification says %s (%d)", c.src, tv, c.want, want),
					map[string]interface{}{"op": core.Op{Kind: "sniff", Data: c.h[:], Cut: -1}, "case": c.src, "header": c.h[:]})
			}
			if (oi*batch+k)%40000 == 0 {
				r.Sample(map[string]interface{}{"header": c.h[:], "src": c.src, "spec_type": c.want, "observed_type_index": tv})
			}
		}
	}
	r.Extra["distinct_headers"] = len(cases)
	r.Assumptions = append(r.Assumptions,
		"signature table written from the format documents; two documented design decisions are part of it: ftyp box size < 2^16, and the mif1/avif rule looks at the second visible compatible brand only",
		"headers are enumerated around 27 canonical headers (single-byte perturbations, byte-range crossovers); arbitrary 24-byte strings are not enumerated")
}

func indexByte(s string, c byte) int {
	for i := 0; i < len(s); i++ {
		if s[i] == c {
			return i
		}
	}
	return -1
}

func firstWord(s string) string {
	for i := 0; i < len(s); i++ {
		if s[i] == ' ' {
			return s[:i]
		}
	}
	return s
}
