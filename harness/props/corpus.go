package props

import (
	"encoding/json"
	"fmt"
	"math/rand"
	"os"
	"path/filepath"
	"sort"
	"strings"

	"verif/core"
	"verif/gen"
)

// fileInput is one concrete input file of the shared corpus.
type fileInput struct {
	Name string
	Kind string // tiff | jpeg | png | cr3 | heif | avif | xmp | other
	Data []byte
	Gen  bool // generated from a specification case (well-formed by construction)
}

// entriesByKind: the decode entry points that correspond to a container kind.
var entriesByKind = map[string][]string{
	"tiff":  {"Decode", "DecodeTiff", "Parse", "ScanTiffHeader", "ScanTiffHeader/raw", "imagetype.Scan", "imagetype.ReadAt"},
	"jpeg":  {"Decode", "DecodeJPEG", "ScanJPEG", "ScanJPEG/raw", "imagetype.Scan", "Parse"}, // exif2.Parse searches any stream for the TIFF header
	"png":   {"DecodePng", "ScanPngHeader", "Decode", "Parse"},
	"cr3":   {"Decode", "DecodeCR3", "PreviewCR3", "BmffReader"},
	"heif":  {"Decode", "DecodeHeif", "BmffReader", "Parse"},
	"avif":  {"Decode", "BmffReader"},
	"xmp":   {"ParseXmp", "Decode", "imagetype.Scan"},
	"other": {"Decode", "Parse", "imagetype.Scan", "imagetype.ReadAt"},
}

// unbufferedEntries read the caller's reader directly (no bufio in between): short reads reach the decoder.
var unbufferedEntries = map[string]bool{"Parse": true, "DecodePng": true, "ScanPngHeader": true, "imagetype.Scan": true,
	"imagetype.ReadAt": true, "PreviewCR3": true, "ScanTiffHeader/raw": true, "ScanJPEG/raw": true, "ParseXmp": true}

const sampleXMP = `<?xpacket begin="" id="W5M0MpCehiHzreSzNTczkc9d"?>
<x:xmpmeta xmlns:x="adobe:ns:meta/" x:xmptk="verif">
 <rdf:RDF xmlns:rdf="http://www.w3.org/1999/02/22-rdf-syntax-ns#">
  <rdf:Description rdf:about="" xmlns:tiff="http://ns.adobe.com/tiff/1.0/" xmlns:exif="http://ns.adobe.com/exif/1.0/" xmlns:xmp="http://ns.adobe.com/xap/1.0/" xmlns:aux="http://ns.adobe.com/exif/1.0/aux/" xmlns:dc="http://purl.org/dc/elements/1.1/"
   tiff:Make="VerifCam" tiff:Model="Model 7" tiff:Orientation="6" exif:ExposureTime="1/250" exif:FNumber="28/10" xmp:Rating="4" aux:Lens="EF24-70mm" aux:SerialNumber="0123456789">
   <xmp:CreateDate>2020-01-02T03:04:05+01:00</xmp:CreateDate>
   <dc:creator><rdf:Seq><rdf:li>Ada</rdf:li><rdf:li>Grace</rdf:li></rdf:Seq></dc:creator>
   <dc:subject><rdf:Bag><rdf:li>one</rdf:li><rdf:li>two</rdf:li><rdf:li>three</rdf:li></rdf:Bag></dc:subject>
  </rdf:Description>
 </rdf:RDF>
</x:xmpmeta>
<?xpacket end="w"?>`

func kindOfSample(name string) string {
	l := strings.ToLower(name)
	switch {
	case strings.HasSuffix(l, ".jpg"):
		return "jpeg"
	case strings.HasSuffix(l, ".avif"), strings.HasSuffix(l, "avif.sample"):
		return "avif"
	case strings.HasSuffix(l, ".xmp"):
		return "xmp"
	case strings.Contains(l, "canonr6"), strings.HasSuffix(l, "1.sample"), strings.HasSuffix(l, "2.sample"):
		return "cr3"
	case strings.HasSuffix(l, ".sample"), strings.Contains(l, "heic"):
		return "heif"
	case strings.HasSuffix(l, ".exif"), strings.HasSuffix(l, ".gpr"):
		return "tiff"
	}
	return "other"
}

// repoSamples loads the repository's own sample files (bounded in size).
func repoSamples(maxLen int) []fileInput {
	var out []fileInput
	for _, pat := range []string{"/repo/testImages/*", "/repo/assets/*", "/repo/isobmff/samples/*", "/repo/xmp/test/*.xmp"} {
		fs, _ := filepath.Glob(pat)
		sort.Strings(fs)
		for _, f := range fs {
			if strings.HasSuffix(f, ".json") {
				continue
			}
			b, err := os.ReadFile(f)
			if err != nil || len(b) == 0 {
				continue
			}
			if len(b) > maxLen {
				b = b[:maxLen]
			}
			out = append(out, fileInput{Name: "repo:" + strings.TrimPrefix(f, "/repo/"), Kind: kindOfSample(f), Data: b})
		}
	}
	return out
}

// cr3WithPreview builds a CR3 file with metadata, xpacket and a preview of n bytes; head=true ends the
// file with the last byte of the preview (a CR3 head fetched up to the end of its preview).
func cr3WithPreview(tiff []byte, n int, head bool, rng *rand.Rand) []byte {
	prev := make([]byte, n)
	rng.Read(prev)
	prev[0], prev[1] = 0xFF, 0xD8
	out := gen.Ftyp("crx ", "crx ", "isom")
	meta := append(append([]byte{}, gen.CR3MetaUUID...), gen.Box("CNCV", []byte("CanonCR3_001/00.09.00/00.00.00"))...)
	meta = append(meta, gen.Box("CMT1", tiff)...)
	out = append(out, gen.Box("moov", gen.Box("uuid", meta))...)
	out = append(out, gen.Box("uuid", gen.CR3XPacketUUID, []byte(sampleXMP))...)
	out = append(out, gen.Box("uuid", gen.CR3PreviewUUID, []byte{0, 0, 0, 0, 0, 0, 0, 1}, gen.PRVWBox(prev, 1620, 1080))...)
	if !head {
		out = append(out, gen.Box("mdat", make([]byte, 80))...)
	}
	return out
}

// baseCorpus assembles the shared input corpus: generated files in every container (from TLC-emitted
// Exif cases), CR3 files with previews, XMP packets and the repository's samples.
func baseCorpus(r *core.Run, rng *rand.Rand, perContainer int, withRepo bool) ([]fileInput, bool) {
	items, ok := exifCorpus(r, []string{"Exif.cont.cfg"}, rng)
	if !ok {
		return nil, false
	}
	var out []fileInput
	step := len(items) / perContainer
	if step < 1 {
		step = 1
	}
	n := 0
	for i := rng.Intn(step); i < len(items) && n < perContainer; i += step {
		it := &items[i]
		bo := []string{"LE", "BE"}[n%2]
		for _, cont := range []string{"tiff", "jpeg", "png", "cr3", "cr3split", "heif", "avif"} {
			kind := cont
			if cont == "cr3split" {
				kind = "cr3"
			}
			out = append(out, fileInput{Name: fmt.Sprintf("gen:%s/%s#%d", cont, bo, i), Kind: kind, Data: wrapContainer(cont, it, bo, rng, n%3), Gen: true})
		}
		if n < 3 {
			out = append(out, fileInput{Name: fmt.Sprintf("gen:cr3+preview20000#%d", i), Kind: "cr3", Data: cr3WithPreview(it.Tiff[bo], 20000, false, rng), Gen: true})
			out = append(out, fileInput{Name: fmt.Sprintf("gen:cr3-head+preview20000#%d", i), Kind: "cr3", Data: cr3WithPreview(it.Tiff[bo], 20000, true, rng), Gen: true})
			out = append(out, fileInput{Name: fmt.Sprintf("gen:cr3-head+preview3000#%d", i), Kind: "cr3", Data: cr3WithPreview(it.Tiff[bo], 3000, true, rng), Gen: true})
		}
		n++
	}
	// the same containers WITHOUT Exif: the scanners run to the end of the file (the kinds of Decode.tla)
	tl := gen.BuildFullTIFF(rand.New(rand.NewSource(r.Seed)), "LE")
	for _, k := range []struct{ kind, dk string }{{"png", "png0"}, {"jpeg", "jpeg0"}, {"heif", "heif0"}, {"other", "gif"}, {"other", "rw2"}} {
		out = append(out, fileInput{Name: "gen:noexif/" + k.dk, Kind: k.kind, Data: decodeKindBytes(k.dk, tl, tl, rng), Gen: true})
	}
	// XMP packets with long runs of white space between tags and in front of attributes (around the 128-byte look-ahead)
	for _, pad := range []int{100, 119, 121, 124, 126, 127, 128, 250, 383} {
		ws := strings.Repeat(" ", pad)
		pk := `<x:xmpmeta xmlns:x="adobe:ns:meta/">` + ws + `<rdf:RDF xmlns:rdf="http://www.w3.org/1999/02/22-rdf-syntax-ns#">` + "\n" + `<rdf:Description rdf:about=""` + ws + `xmlns:tiff="http://ns.adobe.com/tiff/1.0/" tiff:Make="PadMake"` + ws[:pad/2] + `tiff:Model="PadModel">` + ws + `<tiff:Software>pad ` + fmt.Sprint(pad) + `</tiff:Software>` + ws + `</rdf:Description></rdf:RDF></x:xmpmeta>` + strings.Repeat("\n", 300)
		out = append(out, fileInput{Name: fmt.Sprintf("gen:xmp/ws-run-%d", pad), Kind: "xmp", Data: []byte(pk), Gen: true})
	}
	out = append(out, fileInput{Name: "gen:xmp/sample", Kind: "xmp", Data: []byte(sampleXMP), Gen: true})
	out = append(out, fileInput{Name: "gen:xmp/junk+sample", Kind: "xmp", Data: append([]byte(strings.Repeat("junk <a> ", 30)), sampleXMP...), Gen: true})
	if withRepo {
		out = append(out, repoSamples(256*1024)...)
	}
	return out, true
}

func callArgsJSON(entry string) json.RawMessage {
	b, _ := json.Marshal(map[string]string{"entry": entry})
	return b
}
