package props

import (
	"encoding/json"
	"fmt"
	"math"
	"math/big"
	"math/rand"
	"path/filepath"
	"sort"
	"strings"
	"time"

	"verif/core"
)

func init() { Register("C19", runC19) }

type phashRec struct {
	Part string `json:"part"`
	G    struct {
		Fn   string `json:"fn"`
		Kind string `json:"kind"`
		W    int    `json:"w"`
		H    int    `json:"h"`
		Org  int    `json:"org"`
	} `json:"g"`
	Accept int   `json:"accept"`
	C      []int `json:"c"`
	Thr2   int   `json:"thr2"`
	Hash   int   `json:"hash"`
	UM     int   `json:"um"`
	D      struct {
		W1  int    `json:"w1"`
		B1  int    `json:"b1"`
		W2  int    `json:"w2"`
		B2  int    `json:"b2"`
		Rel string `json:"rel"`
	} `json:"d"`
	Dist int `json:"dist"`
}

func runC19(r *core.Run) {
	rng := rand.New(rand.NewSource(r.Seed))
	r.Rule = "TLC checks PHash: the size guard as a total decision over 4 functions x 5 image kinds x 11x11 sizes x nil x origin (the `and` deviation violates GuardOK); quick-select + threshold + MSB-first bit assembly transcribed step by step and checked on every coefficient sequence of length 4, 6 (8 thorough) over {0..3}: SelectOK, ThrLeqUM, UpperSet, AtMostHalf, Perm, Terminates; Hamming distance on one-bit patterns at word/bit boundaries, same, complement. Every emitted record is replayed: guard on real images (error iff not accepted, no panic), MedianOfPixels on the sequences (exact) and the fixed-size / float32 variants on tiled sequences, Distance on the patterns. Plus: the same picture stored at other origins / inside larger backing images hashes identically, constant images hash to 0x80..0, repeated calls agree, and (numeric, outside the specification) bits agree with an independent float64 DCT-II of the luminance outside a rounding margin of the median"
	cfg := "PHash.cfg"
	if r.Tier == "thorough" {
		cfg = "PHash.thorough.cfg"
	}
	d, err := core.RunTLC(core.TLCOpts{Module: "PHash", Cfg: "PHash.and.cfg", Workers: 2, Timeout: 10 * time.Minute})
	if err != nil || d.Violated != "GuardOK" {
		r.Machinery("PHash (`and` guard deviation) was expected to violate GuardOK in the model, got %q: %v", d.Violated, err)
		d.Cleanup()
		return
	}
	r.Extra["deviation_and_guard"] = "violates GuardOK"
	d.Cleanup()
	t, err := core.RunTLC(core.TLCOpts{Module: "PHash", Cfg: cfg, Workers: 8, Timeout: 30 * time.Minute})
	defer t.Cleanup()
	if err != nil || !t.OK {
		r.Machinery("TLC run on PHash failed: %v %s", err, tail(t))
		return
	}
	r.AddTLC("PHash", t)
	var guards, selects, dists []phashRec
	_, err = core.ReadEmitted(filepath.Join(t.Dir, "emit.ndjson"), func(raw json.RawMessage) error {
		var p phashRec
		if e := json.Unmarshal(raw, &p); e != nil {
			return e
		}
		switch p.Part {
		case "guard":
			guards = append(guards, p)
		case "select":
			selects = append(selects, p)
		default:
			dists = append(dists, p)
		}
		return nil
	})
	if err != nil || len(guards) == 0 || len(selects) == 0 || len(dists) == 0 {
		r.Machinery("reading emitted PHash records: %v (%d/%d/%d)", err, len(guards), len(selects), len(dists))
		return
	}
	sort.Slice(guards, func(i, j int) bool { return fmt.Sprint(guards[i].G) < fmt.Sprint(guards[j].G) })
	var ops []core.Op
	// 1. the guard
	for i, g := range guards {
		ratio := []int{444, 422, 420, 440, 411, 410}[i%6]
		d := img(g.G.Kind, g.G.W, g.G.H, "noise", int64(i), 3*g.G.Org, 5*g.G.Org, 2*g.G.Org, ratio)
		op := hashOp(g.G.Fn, d)
		op.ID = len(ops)
		ops = append(ops, op)
	}
	nGuard := len(ops)
	// 2. thresholds
	var seqs [][]float64
	for _, s := range selects {
		f := make([]float64, len(s.C))
		for k, v := range s.C {
			f[k] = float64(v)
		}
		seqs = append(seqs, f)
	}
	a, _ := json.Marshal(map[string]interface{}{"c": seqs})
	ops = append(ops, core.Op{ID: len(ops), Kind: "median", Cut: -1, Args: a})
	// 3. distances
	var ds []interface{}
	for _, p := range dists {
		ds = append(ds, map[string]interface{}{"W1": p.D.W1, "B1": p.D.B1, "W2": p.D.W2, "B2": p.D.B2, "Rel": p.D.Rel})
	}
	a, _ = json.Marshal(map[string]interface{}{"d": ds, "seed": r.Seed})
	ops = append(ops, core.Op{ID: len(ops), Kind: "distance", Cut: -1, Args: a})
	// 4. storage invariance, constants, repeat, oracle
	type pic struct {
		fn, kind, content string
		n                 int
		seed              int64
	}
	var pics []pic
	for _, n := range []int{64, 256} {
		fns := []string{"NewPHash64", "NewPHash64Alt"}
		if n == 256 {
			fns = []string{"NewPHash256", "NewPHash256Alt"}
		}
		for _, fn := range fns {
			for _, kind := range []string{"RGBA", "NRGBA", "Gray", "YCbCr"} {
				for ci, content := range []string{"smooth", "noise", "const", "extreme", "ramp", "holes"} {
					if n == 256 && r.Tier != "thorough" && ci%2 == 1 && content != "holes" {
						continue
					}
					if content == "holes" && kind != "RGBA" && kind != "NRGBA" {
						continue // transparency exists for the alpha-carrying kinds only
					}
					pics = append(pics, pic{fn, kind, content, n, int64(100 + ci + int(r.Seed)*10)})
				}
			}
		}
	}
	storages := [][3]int{{0, 0, 0}, {0, 0, 0}, {3, 5, 2}, {8, 8, 8}, {0, 0, 1}}
	picStart := len(ops)
	for _, p := range pics {
		for _, st := range storages {
			op := hashOp(p.fn, img(p.kind, p.n, p.n, p.content, p.seed, st[0], st[1], st[2], 444))
			op.ID = len(ops)
			ops = append(ops, op)
		}
	}
	orStart := len(ops)
	type orc struct {
		kind, content string
		n             int
	}
	var orcs []orc
	for _, n := range []int{64, 256} {
		for _, kind := range []string{"RGBA", "NRGBA", "Gray"} {
			for _, content := range []string{"smooth", "noise", "ramp", "extreme", "holes"} {
				if content == "holes" && kind == "Gray" {
					continue
				}
				for k := 0; k < 3; k++ {
					if n == 256 && (r.Tier != "thorough" && k > 0) {
						continue
					}
					orcs = append(orcs, orc{kind, content, n})
					a, _ := json.Marshal(map[string]interface{}{"img": img(kind, n, n, content, int64(1000+k*17+len(orcs))+r.Seed, 0, 0, 0, 444)})
					ops = append(ops, core.Op{ID: len(ops), Kind: "hashoracle", Cut: -1, Args: a, Heavy: true})
				}
			}
		}
	}
	_ = rng
	obs, err := core.RunOps(ops, core.WorkerOpts{Shards: 14})
	if err != nil {
		r.Machinery("worker: %v", err)
		return
	}
	hashOf := func(o *core.Obs) string {
		var x struct {
			Hash string `json:"hash"`
		}
		json.Unmarshal(o.R, &x)
		return x.Hash
	}
	for i := 0; i < nGuard; i++ {
		g, o, op := &guards[i], &obs[i], &ops[i]
		r.Cases++
		desc := map[string]interface{}{"fn": g.G.Fn, "kind": g.G.Kind, "w": g.G.W, "h": g.G.H, "origin": g.G.Org, "accepted_by_design": g.Accept}
		cls := "wrong-size"
		if g.G.Kind == "nil" {
			cls = "nil"
		}
		switch {
		case o.Bad():
			r.Violate("phash:guard:"+o.BadKind()+":"+cls, fmt.Sprintf("%s on a %s image of %dx%d (origin variant %d): %s %s%s instead of %s", g.G.Fn, g.G.Kind, g.G.W, g.G.H, g.G.Org, o.BadKind(), o.Panic, o.Crash, map[int]string{0: "an error", 1: "a hash"}[g.Accept]), replayOf(op, o, desc))
		case g.Accept == 0 && o.Err == "":
			r.Violate("phash:guard:accepted:"+cls, fmt.Sprintf("%s computes a hash (%s) for a %s image of %dx%d; only %dx%d is accepted", g.G.Fn, hashOf(o), g.G.Kind, g.G.W, g.G.H, map[bool]int{true: 64, false: 256}[strings.Contains(g.G.Fn, "64")], map[bool]int{true: 64, false: 256}[strings.Contains(g.G.Fn, "64")]), replayOf(op, o, desc))
		case g.Accept == 1 && o.Err != "":
			r.Violate("phash:guard:rejected:"+g.G.Kind, fmt.Sprintf("%s rejects a %s image of the required size %dx%d (origin variant %d): %s", g.G.Fn, g.G.Kind, g.G.W, g.G.H, g.G.Org, o.Err), replayOf(op, o, desc))
		}
	}
	// thresholds
	{
		o := &obs[nGuard]
		if o.Bad() {
			r.Violate("phash:median:"+o.BadKind(), "MedianOfPixels "+o.BadKind()+": "+o.Panic, replayOf(&ops[nGuard], o, nil))
		} else {
			var rows []struct {
				Generic float64   `json:"generic"`
				Fixed   []float64 `json:"fixed"`
			}
			json.Unmarshal(o.R, &rows)
			for i, s := range selects {
				r.Cases++
				if i >= len(rows) {
					break
				}
				want := float64(s.Thr2) / 2
				if rows[i].Generic != want {
					r.Violate("phash:median:generic", fmt.Sprintf("MedianOfPixels(%v) = %v, the transcribed selection gives %v", s.C, rows[i].Generic, want), map[string]interface{}{"c": s.C})
				}
				// bit assembly from the real threshold, MSB first
				h := 0
				for j, v := range s.C {
					if float64(v) > rows[i].Generic {
						h |= 1 << uint(len(s.C)-1-j)
					}
				}
				if h != s.Hash {
					r.Violate("phash:bits", fmt.Sprintf("coefficients %v with threshold %v give bits %b, specification %b", s.C, rows[i].Generic, h, s.Hash), map[string]interface{}{"c": s.C})
				}
				names := []string{"transforms.MedianOfPixels64", "transforms.MedianOfPixels256", "transforms32.MedianOfPixels64", "transforms32.MedianOfPixels256"}
				for k, v := range rows[i].Fixed {
					minv := math.Inf(1)
					for _, x := range s.C {
						minv = math.Min(minv, float64(x))
					}
					if v > float64(s.UM) || v < minv {
						r.Violate("phash:median:"+names[k], fmt.Sprintf("%s on %v tiled = %v: not a threshold at or below the upper median %d", names[k], s.C, v, s.UM), map[string]interface{}{"c": s.C})
					}
				}
			}
		}
	}
	// distances
	{
		o := &obs[nGuard+1]
		if o.Bad() {
			r.Violate("phash:distance:"+o.BadKind(), "Distance "+o.BadKind()+": "+o.Panic, replayOf(&ops[nGuard+1], o, nil))
		} else {
			var res struct {
				Rows []struct{ D256, D256r, D64 int } `json:"rows"`
				Bad  []string                         `json:"bad"`
			}
			json.Unmarshal(o.R, &res)
			for i, p := range dists {
				r.Cases++
				if i >= len(res.Rows) {
					break
				}
				row := res.Rows[i]
				if row.D256 != p.Dist || row.D256r != p.Dist {
					r.Violate("phash:distance:PHash256:"+p.D.Rel, fmt.Sprintf("PHash256 distance %d / %d for patterns %+v, Hamming distance %d", row.D256, row.D256r, p.D, p.Dist), map[string]interface{}{"d": p.D})
				}
				want64 := p.Dist
				if p.D.Rel == "complement" {
					want64 = 64
				}
				if row.D64 >= 0 && row.D64 != want64 {
					r.Violate("phash:distance:PHash64:"+p.D.Rel, fmt.Sprintf("PHash64 distance %d for patterns %+v, Hamming distance %d", row.D64, p.D, want64), map[string]interface{}{"d": p.D})
				}
			}
			for _, b := range res.Bad {
				r.Violate("phash:distance:dense", b, nil)
			}
		}
	}
	// storage invariance, constant images, repeatability
	for pi, p := range pics {
		base := picStart + pi*len(storages)
		ref := &obs[base]
		r.Cases++
		for k := range storages {
			o := &obs[base+k]
			if p.kind == "YCbCr" && strings.HasSuffix(p.fn, "Alt") && k >= 2 {
				// at the origin the vector conversion is used, elsewhere the portable one: the two may differ by rounding
				// (C20 bounds that); storage variants are compared among those that take the same conversion
				ref = &obs[base+2]
			}
			desc := map[string]interface{}{"fn": p.fn, "kind": p.kind, "content": p.content, "size": p.n, "storage(ox,oy,pad)": storages[k]}
			if o.Bad() || o.Err != "" {
				r.Violate("phash:storage:"+p.kind+":fails", fmt.Sprintf("%s on a %dx%d %s image stored at origin (%d,%d) with %d px of backing image around it: %s%s%s", p.fn, p.n, p.n, p.kind, storages[k][0], storages[k][1], storages[k][2], o.Panic, o.Crash, o.Err), replayOf(&ops[base+k], o, desc))
				continue
			}
			if !ref.Bad() && hashOf(o) != hashOf(ref) {
				key := "phash:storage:" + p.kind + ":hash-differs"
				if k == 1 {
					key = "phash:repeat:" + p.kind
				}
				r.Violate(key, fmt.Sprintf("%s: the same %s picture (%s) hashes to %s at origin (%d,%d)/pad %d and to %s at the origin", p.fn, p.kind, p.content, hashOf(o), storages[k][0], storages[k][1], storages[k][2], hashOf(ref)), replayOf(&ops[base+k], o, desc))
			}
		}
		if p.content == "const" && !ref.Bad() && ref.Err == "" {
			want := "8" + strings.Repeat("0", len(hashOf(ref))-1)
			if hashOf(ref) != want {
				r.Violate("phash:constant:"+p.kind, fmt.Sprintf("%s of a constant %s image = %s; only the DC coefficient is non-zero, so the hash is %s", p.fn, p.kind, hashOf(ref), want), replayOf(&ops[base], ref, nil))
			}
		}
	}
	// numeric oracle (outside the specification)
	nOracle := 0
	for k := range orcs {
		o := &obs[orStart+k]
		if o.Bad() {
			r.Violate("phash:oracle:"+o.BadKind(), "hash oracle run "+o.BadKind()+": "+o.Panic+o.Crash, replayOf(&ops[orStart+k], o, nil))
			continue
		}
		var res map[string]interface{}
		json.Unmarshal(o.R, &res)
		cs, _ := res["c"].([]interface{})
		l1, _ := res["l1"].(float64)
		c := make([]float64, len(cs))
		for i := range cs {
			c[i], _ = cs[i].(float64)
		}
		sorted := append([]float64{}, c...)
		sort.Float64s(sorted)
		um, lm := sorted[len(c)/2], sorted[len(c)/2-1]
		for fn, v := range res {
			hs, ok := v.(string)
			if !ok || !strings.HasPrefix(fn, "NewPHash") {
				continue
			}
			if strings.HasPrefix(hs, "error") {
				r.Violate("phash:oracle:error", fn+" "+hs, replayOf(&ops[orStart+k], o, nil))
				continue
			}
			tau := 1e-9 * l1
			if strings.HasSuffix(fn, "Alt") {
				tau = 3e-5 * l1
			}
			bits, _ := new(big.Int).SetString(hs, 16)
			for i := range c {
				bit := bits.Bit(len(c) - 1 - i)
				if c[i] > um+tau && bit == 0 {
					r.Violate("phash:definition:upper-cleared:"+fn, fmt.Sprintf("%s (%s %s %d): coefficient %d = %.6g lies above the upper median %.6g (margin %.3g) but its bit is cleared", fn, orcs[k].kind, orcs[k].content, orcs[k].n, i, c[i], um, tau), replayOf(&ops[orStart+k], nil, nil))
					break
				}
				if c[i] < lm-tau && bit == 1 {
					r.Violate("phash:definition:lower-set:"+fn, fmt.Sprintf("%s (%s %s %d): coefficient %d = %.6g lies below the lower median %.6g (margin %.3g) but its bit is set", fn, orcs[k].kind, orcs[k].content, orcs[k].n, i, c[i], lm, tau), replayOf(&ops[orStart+k], nil, nil))
					break
				}
			}
			nOracle++
		}
		r.Cases++
	}
	r.Sample(map[string]interface{}{"guard_cases": len(guards), "sequences": len(selects), "distance_patterns": len(dists), "pictures_x_storages": len(pics) * len(storages), "oracle_hashes": nOracle})
	r.Extra["guard_cases"] = len(guards)
	r.Extra["oracle_hashes_checked"] = nOracle
	r.Assumptions = append(r.Assumptions,
		"not decided by the specification (no floating point in TLC): that the coefficients are those of a DCT-II; the harness checks it numerically for RGBA/NRGBA/Gray pictures with margins 1e-9*L1 (float64) / 3e-5*L1 (float32) and does not compare YCbCr luminance with an independent conversion",
		"history independence of the hashes is checked by C04, kernel equality by nothing (C18 not applicable)")
}
