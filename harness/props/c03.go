package props

import (
	"encoding/json"
	"fmt"
	"math/rand"
	"reflect"
	"strings"

	"verif/core"
	"verif/gen"
)

func init() { Register("C03", runC03) }

// exifItem is one concretised case of the Exif specification: the same logical record encoded
// in both byte orders, with the record a correct decoder must report.
type exifItem struct {
	C    *gen.ExifCase
	Bind map[int]*gen.Bound
	Tiff map[string][]byte // "LE" | "BE"
	Exp  map[string]interface{}
	Skip map[string]bool
}

// exifCorpus runs the Exif specification on the given configs and concretises every terminal state.
func exifCorpus(r *core.Run, cfgs []string, rng *rand.Rand) ([]exifItem, bool) {
	var items []exifItem
	for _, cfg := range cfgs {
		cases, ok := loadExifCases(r, cfg, 8)
		if !ok {
			return nil, false
		}
		for i := range cases {
			c := &cases[i]
			bind, err := gen.BindCase(c, rng)
			if err != nil {
				r.Machinery("binding an Exif case: %v", err)
				return nil, false
			}
			exp, skip := expectedExif(gen.ExpectedFields(c, bind))
			items = append(items, exifItem{C: c, Bind: bind, Exp: exp, Skip: skip,
				Tiff: map[string][]byte{"LE": gen.BuildTIFF(c, bind, "LE"), "BE": gen.BuildTIFF(c, bind, "BE")}})
		}
	}
	return items, true
}

type exifObsR struct {
	F        map[string]interface{} `json:"f"`
	Consumed int64                  `json:"consumed"`
}

func exifArgs(entry, bo string, ifd0, length int) json.RawMessage {
	b, _ := json.Marshal(map[string]interface{}{"entry": entry, "bo": bo, "ifd0": ifd0, "len": length})
	return b
}

// entriesFor lists the (entry point, container) pairs that exercise one hand-off variant.
func entriesFor(variant string) [][2]string {
	switch variant {
	case "tiff":
		return [][2]string{{"Decode", "tiff"}, {"DecodeTiff", "tiff"}, {"Parse", "tiff"}, {"ScanTiff+DecodeTiff", "tiff"}}
	case "jpeg":
		return [][2]string{{"Decode", "jpeg"}, {"DecodeJPEG", "jpeg"}}
	}
	return [][2]string{{"DecodeIfd", "raw"}}
}

func entryGroup(entry string) string {
	switch entry {
	case "Parse", "DecodePng":
		return "unbuffered"
	}
	return "buffered"
}

type exifOpInfo struct {
	item  int
	bo    string
	entry string
	cont  string
}

func describeExifCase(it *exifItem) map[string]interface{} {
	tags := map[string]interface{}{}
	for k, b := range it.Bind {
		tags[fmt.Sprint(k)] = fmt.Sprintf("%s(0x%04x) type %d count %d", b.Name, b.ID, b.Val.Typ, b.Val.Count())
	}
	return map[string]interface{}{"case": it.C, "tags": tags, "expected": it.Exp}
}

func runC03(r *core.Run) {
	rng := rand.New(rand.NewSource(r.Seed))
	r.Rule = "TLC enumerates every logical record of MinPick..MaxPick entries over one representative per encoding class and directory x every FORWARD block order x padding x IFD0 offset x hand-off variant (plus pending-list pressure 80..85 foreign out-of-line tags); each terminal state is a case: the abstract file and the set of entries a correct reader reports; the concretiser binds classes to real tags with seeded in-range values in both byte orders"
	cfgs := []string{"Exif.quick.cfg", "Exif.time.cfg", "Exif.bulkq.cfg"}
	if r.Tier == "thorough" {
		cfgs = []string{"Exif.thorough.cfg", "Exif.time.cfg", "Exif.bulk.cfg"}
	}
	items, ok := exifCorpus(r, cfgs, rng)
	if !ok {
		return
	}
	var ops []core.Op
	var info []exifOpInfo
	for i := range items {
		it := &items[i]
		for _, bo := range []string{"LE", "BE"} {
			for _, ec := range entriesFor(it.C.Variant) {
				data := it.Tiff[bo]
				if ec[1] == "jpeg" {
					data = gen.WrapJPEG(data, rng, i%3)
				}
				traced := ec[0] == "DecodeTiff" || ec[0] == "DecodeJPEG" || ec[0] == "DecodeIfd" || (ec[0] == "Parse" && i%4 == 0)
				if r.Tier != "thorough" && (i+len(bo))%4 != 0 && it.C.Bulk == 0 {
					traced = false // quick: a quarter of the runs are recorded and validated against Trace_Exif
				}
				ops = append(ops, core.Op{ID: len(ops), Kind: "exif", Data: data, Cut: -1, Args: exifArgs(ec[0], bo, it.C.Ifd0At, it.C.Len), Trace: traced})
				info = append(info, exifOpInfo{i, bo, ec[0], ec[1]})
			}
		}
	}
	obs, err := core.RunOps(ops, core.WorkerOpts{})
	if err != nil {
		r.Machinery("worker: %v", err)
		return
	}
	var ts traceSet
	for i := range obs {
		if obs[i].Skipped {
			continue // not executed: the run had already met many calls that do not return
		}
		o, op, inf := &obs[i], &ops[i], info[i]
		it := &items[inf.item]
		if op.Trace && !o.Bad() && o.Err == "" {
			r.Events += ts.add(i, exifStart(it.C, it.Bind), o.Events, "exif")
		}
		o.Events = nil
		if o.Bad() {
			r.Violate("exif:"+inf.entry+":"+o.BadKind()+"@"+o.Site, fmt.Sprintf("%s on a well-formed forward layout: %s%s%s", o.BadKind(), o.Panic, o.Crash, o.Stall), replayOf(op, o, describeExifCase(it)))
			continue
		}
		r.Cases++
		if o.Err != "" {
			r.Violate("exif:"+inf.entry+":error-on-wellformed", "well-formed file, error "+o.Err, replayOf(op, o, describeExifCase(it)))
			continue
		}
		var got exifObsR
		json.Unmarshal(o.R, &got)
		for _, f := range diffFlat(got.F, it.Exp, it.Skip) {
			cls := fieldClass(it.C, it.Bind, f)
			key := "exif:field:" + f + ":" + cls + ":" + entryGroup(inf.entry)
			if cls == "absent" {
				key = "exif:field:" + f + ":absent-but-reported:" + entryGroup(inf.entry)
			}
			r.Violate(key, fmt.Sprintf("%s (%s, %s): field %s = %v, encoded value %v", inf.entry, inf.bo, it.C.Variant, f, got.F[f], it.Exp[f]), replayOf(op, o, describeExifCase(it)))
		}
		if inf.entry == "DecodeIfd" || inf.entry == "ScanTiff+DecodeTiff" {
			_ = got.Consumed
		}
		if i%4000 == 0 {
			r.Sample(map[string]interface{}{"entry": inf.entry, "order": inf.bo, "case": it.C, "reported": strings.Join(keysOf(it.Exp, it.Skip), ",")})
		}
	}
	validateTraces(r, "Trace_Exif", "Trace_Exif.cfg", "exif2.ifdReader", ops, obs, ts.lines, ts.owner)
	bindingSelfTest(r, "Trace_Exif", "Trace_Exif.cfg", &ts, "val", 1, 2) // a value fetched 2 bytes off its place
	runExifAlign(r)
	runExifThumb(r, items, rng)
	runExifDirSize(r)
	r.Extra["entry_points"] = []string{"imagemeta.Decode", "imagemeta.DecodeTiff", "exif2.Parse", "tiff.ScanTiffHeader+ifdReader.DecodeTiff", "imagemeta.DecodeJPEG", "ifdReader.DecodeIfd"}
	r.Assumptions = append(r.Assumptions,
		"forward layouts only (the property's domain); values are in the ranges the reported types can hold; strings are printable without trailing blanks",
		"composite timestamps are compared only when their date part is present (sub-seconds or zone alone have no defined report)",
		"records larger than MaxPick entries are covered by the bulk/big configs only through foreign filler tags")
}

func keysOf(exp map[string]interface{}, skip map[string]bool) []string {
	var ks []string
	for k, v := range exp {
		if skip[k] {
			continue
		}
		switch x := v.(type) {
		case string:
			if x == "" || strings.HasPrefix(x, "0001-01-01T00:00:00.000000000Z") {
				continue
			}
		case float64:
			if x == 0 {
				continue
			}
		case []interface{}:
			continue
		}
		ks = append(ks, k)
	}
	return ks
}

// exifStart is the start record of a closed Exif trace: the abstract file the bytes were built from.
func exifStart(c *gen.ExifCase, bind map[int]*gen.Bound) map[string]interface{} {
	dirs := map[string]interface{}{}
	for _, d := range []string{"IFD0", "Exif", "GPS"} {
		es := []interface{}{}
		for _, e := range c.Dirs[d] {
			es = append(es, map[string]interface{}{"key": e.Key, "ifd": e.Ifd, "cls": e.Cls})
		}
		dirs[d] = es
	}
	ats := []interface{}{}
	for i, b := range c.Lay {
		ats = append(ats, map[string]interface{}{"key": b.Key, "off": c.Offs[i]})
	}
	// An entry the library documents as "only if the other field is still empty" (CameraOwnerName after Artist,
	// BodySerialNumber after CameraSerialNumber) is not read when the other field has been set EARLIER IN STREAM ORDER:
	// embedded in IFD0, or out of line at a smaller offset.
	offOf := map[int]int{}
	for i, b := range c.Lay {
		offOf[b.Key] = c.Offs[i]
	}
	twin := map[uint16]uint16{0xa430: 0x013b, 0xa431: 0xc62f}
	skip := []int{}
	// ... and symmetrically the IFD0 CameraSerialNumber is not read when BodySerialNumber's value came first
	for _, e0 := range c.Dirs["IFD0"] {
		b0 := bind[e0.Key]
		if b0 == nil || b0.ID != 0xc62f || b0.Val.Size() <= 4 {
			continue
		}
		for _, e := range c.Dirs["Exif"] {
			if b := bind[e.Key]; b != nil && b.ID == 0xa431 && (b.Val.Size() <= 4 || offOf[e.Key] < offOf[e0.Key]) {
				skip = append(skip, e0.Key)
			}
		}
	}
	for _, e := range c.Dirs["Exif"] {
		b := bind[e.Key]
		if b == nil || twin[b.ID] == 0 || b.Val.Size() <= 4 {
			continue
		}
		for _, e0 := range c.Dirs["IFD0"] {
			if b0 := bind[e0.Key]; b0 != nil && b0.ID == twin[b.ID] && b0.Val.Typ == 2 {
				if b0.Val.Size() <= 4 || offOf[e0.Key] < offOf[e.Key] {
					skip = append(skip, e.Key)
				}
			}
		}
	}
	return map[string]interface{}{"e": "start", "dirs": dirs, "variant": c.Variant, "ifd0at": c.Ifd0At, "len": c.Len, "ats": ats, "skip": skip}
}

// runExifAlign makes the specification's IFD0-offset dimension concrete over its whole range: the SAME
// all-tags record (every directory, every encoding class) is written with IFD0 at 8 .. 4200, so that every
// directory, entry block and value straddles the reader's 4 KiB look-ahead window at some offset, followed
// by image data. The reported record must be the one reported at offset 8, through every entry point.
func runExifAlign(r *core.Run) {
	var ops []core.Op
	type ak struct {
		bo, entry string
		shift     int
	}
	var keys []ak
	step := 1
	if r.Tier != "thorough" {
		step = 3
	}
	for bi, bo := range []string{"LE", "BE"} {
		for ei, entry := range []string{"DecodeTiff", "Parse", "Decode", "DecodeJPEG"} {
			for shift := 8; shift <= 4200; shift++ {
				if shift != 8 && (shift+ei+bi)%step != 0 {
					continue
				}
				data := gen.BuildFullTIFFAt(rand.New(rand.NewSource(r.Seed)), bo, shift)
				if entry == "DecodeJPEG" {
					data = gen.WrapJPEG(data, rand.New(rand.NewSource(r.Seed)), 0)
				} else {
					for k := 0; k < 6000; k++ {
						data = append(data, byte(0xA0+k%7))
					}
				}
				ops = append(ops, core.Op{ID: len(ops), Kind: "call", Data: data, Cut: -1, Args: callArgsJSON(entry)})
				keys = append(keys, ak{bo, entry, shift})
			}
		}
	}
	obs, err := core.RunOps(ops, core.WorkerOpts{})
	if err != nil {
		r.Machinery("worker: %v", err)
		return
	}
	var base map[string]interface{}
	for i := range obs {
		if obs[i].Skipped {
			continue // not executed: the run had already met many calls that do not return
		}
		o, op, k := &obs[i], &ops[i], keys[i]
		desc := map[string]interface{}{"input": fmt.Sprintf("all-tags record (%s), IFD0 at %d", k.bo, k.shift), "entry": k.entry}
		if o.Bad() {
			r.Violate("exif:align:"+o.BadKind()+"@"+o.Site, fmt.Sprintf("%s %s on the all-tags record with IFD0 at %d: %s%s%s", k.entry, o.BadKind(), k.shift, o.Panic, o.Crash, o.Stall), replayOf(op, o, desc))
			continue
		}
		r.Cases++
		var got struct {
			F map[string]interface{} `json:"f"`
		}
		json.Unmarshal(o.R, &got)
		if k.shift == 8 {
			if o.Err != "" || len(got.F) == 0 {
				r.Machinery("alignment sweep: %s fails on the all-tags record at offset 8: %s", k.entry, o.Err)
				return
			}
			base = got.F
			continue
		}
		if o.Err != "" {
			r.Violate("exif:align:error:"+k.entry, fmt.Sprintf("%s (%s): error %s on the all-tags record with IFD0 at %d (none with IFD0 at 8)", k.entry, k.bo, o.Err, k.shift), replayOf(op, o, desc))
			continue
		}
		for f, want := range base {
			if !reflect.DeepEqual(got.F[f], want) {
				r.Violate("exif:align:field:"+f+":"+k.entry, fmt.Sprintf("%s (%s): field %s = %v with IFD0 at %d, %v with IFD0 at 8 (same encoded record)", k.entry, k.bo, f, got.F[f], k.shift, want), replayOf(op, o, desc))
				break
			}
		}
	}
	r.Extra["alignment_sweep_ops"] = len(ops)
}

// runExifThumb: a thumbnail directory (IFD1: other dimensions, orientation, make; thumbnail data) chained behind a
// sample of the generated blocks. The reported record is the primary image's: it must equal the specified record,
// exactly as without IFD1 ("unrelated tags do not perturb the result").
func runExifThumb(r *core.Run, items []exifItem, rng *rand.Rand) {
	var ops []core.Op
	var info []exifOpInfo
	step := 7
	if r.Tier == "thorough" {
		step = 2
	}
	for i := rng.Intn(step); i < len(items); i += step {
		it := &items[i]
		if it.C.Variant == "ifd" || it.C.Bulk > 0 {
			continue
		}
		for _, bo := range []string{"LE", "BE"} {
			t := gen.AppendIFD1(it.Tiff[bo], bo, it.C.Ifd0At)
			if t == nil {
				continue
			}
			for _, ec := range entriesFor(it.C.Variant) {
				data := append(append([]byte{}, t...), make([]byte, 40)...)
				if ec[1] == "jpeg" {
					data = gen.WrapJPEG(t, rng, i%3)
				}
				ops = append(ops, core.Op{ID: len(ops), Kind: "exif", Data: data, Cut: -1, Args: exifArgs(ec[0], bo, it.C.Ifd0At, len(t))})
				info = append(info, exifOpInfo{i, bo, ec[0], ec[1]})
			}
		}
	}
	obs, err := core.RunOps(ops, core.WorkerOpts{})
	if err != nil {
		r.Machinery("worker: %v", err)
		return
	}
	for i := range obs {
		o, op, inf := &obs[i], &ops[i], info[i]
		it := &items[inf.item]
		if o.Bad() {
			r.Violate("exif:thumb:"+o.BadKind()+"@"+o.Site, fmt.Sprintf("%s with a thumbnail directory behind the block: %s %s%s", inf.entry, o.BadKind(), o.Panic, o.Crash), replayOf(op, o, describeExifCase(it)))
			continue
		}
		r.Cases++
		if o.Err != "" {
			r.Violate("exif:thumb:error:"+inf.entry, "well-formed file with a thumbnail directory (IFD1), error "+o.Err, replayOf(op, o, describeExifCase(it)))
			continue
		}
		var got exifObsR
		json.Unmarshal(o.R, &got)
		for _, f := range diffFlat(got.F, it.Exp, it.Skip) {
			r.Violate("exif:thumb:field:"+f+":"+entryGroup(inf.entry), fmt.Sprintf("%s (%s, %s) with a thumbnail directory chained behind the block: field %s = %v, the primary image's value is %v", inf.entry, inf.bo, it.C.Variant, f, got.F[f], it.Exp[f]), replayOf(op, o, describeExifCase(it)))
		}
	}
	r.Extra["thumbnail_directory_runs"] = len(ops)
}

// runExifDirSize: the all-tags record with each directory padded by unrelated embedded tags to exactly n entries,
// n up to the documented maximum of 128 (12 * 128 = the size of the reader's scratch buffer). The reported record
// must be the one of the unpadded file, through the entry points with and without a bufio reader.
func runExifDirSize(r *core.Run) {
	var ops []core.Op
	type dk struct {
		bo, entry, dir string
		n              int
	}
	var keys []dk
	sizes := []int{0, 85, 86, 100, 126, 127, 128}
	for _, bo := range []string{"LE", "BE"} {
		for _, entry := range []string{"DecodeTiff", "Parse", "DecodePng", "DecodeJPEG"} {
			for _, dir := range []string{"IFD0", "Exif", "GPS"} {
				for _, n := range sizes {
					if n == 0 && dir != "IFD0" {
						continue
					}
					var fill map[string]int
					if n > 0 {
						fill = map[string]int{dir: n}
					}
					data := gen.BuildFullTIFFFill(rand.New(rand.NewSource(r.Seed)), bo, 8, fill)
					switch entry {
					case "DecodePng":
						data = gen.WrapPNG(data, rand.New(rand.NewSource(r.Seed)), 0)
					case "DecodeJPEG":
						data = gen.WrapJPEG(data, rand.New(rand.NewSource(r.Seed)), 0)
					default:
						data = append(data, make([]byte, 64)...)
					}
					ops = append(ops, core.Op{ID: len(ops), Kind: "call", Data: data, Cut: -1, Args: callArgsJSON(entry)})
					keys = append(keys, dk{bo, entry, dir, n})
				}
			}
		}
	}
	obs, err := core.RunOps(ops, core.WorkerOpts{})
	if err != nil {
		r.Machinery("worker: %v", err)
		return
	}
	var base map[string]interface{}
	for i := range obs {
		o, op, k := &obs[i], &ops[i], keys[i]
		desc := map[string]interface{}{"input": fmt.Sprintf("all-tags record (%s), %s padded to %d entries", k.bo, k.dir, k.n), "entry": k.entry}
		if o.Bad() {
			r.Violate("exif:dirsize:"+o.BadKind()+"@"+o.Site, fmt.Sprintf("%s %s with %s padded to %d entries: %s%s", k.entry, o.BadKind(), k.dir, k.n, o.Panic, o.Crash), replayOf(op, o, desc))
			continue
		}
		r.Cases++
		var got struct {
			F map[string]interface{} `json:"f"`
		}
		json.Unmarshal(o.R, &got)
		if k.n == 0 {
			if o.Err != "" || len(got.F) == 0 {
				r.Machinery("directory-size sweep: %s fails on the unpadded all-tags record: %s", k.entry, o.Err)
				return
			}
			base = got.F
			continue
		}
		if o.Err != "" {
			r.Violate("exif:dirsize:error:"+k.entry, fmt.Sprintf("%s (%s): error %s with %s padded to %d entries by unrelated tags (none without them)", k.entry, k.bo, o.Err, k.dir, k.n), replayOf(op, o, desc))
			continue
		}
		for f, want := range base {
			if f == "ImageType" {
				continue
			}
			if !reflect.DeepEqual(got.F[f], want) {
				r.Violate("exif:dirsize:field:"+f+":"+entryGroup(k.entry), fmt.Sprintf("%s (%s): field %s = %v with %s padded to %d entries by unrelated tags, %v without them", k.entry, k.bo, f, got.F[f], k.dir, k.n, want), replayOf(op, o, desc))
				break
			}
		}
	}
	r.Extra["directory_size_runs"] = len(ops)
}
