package props

import (
	"encoding/json"
	"fmt"
	"path/filepath"
	"time"

	"verif/core"
)

func init() { Register("C20", runC20) }

func runC20(r *core.Run) {
	r.Rule = "TLC checks the integer index model YCbCr for every geometry (6 subsampling ratios x widths {64, 256} x origins x luma/chroma stride paddings): for every (x, y) the vector loop's luma, chroma and destination indices equal the reference indices (SameIdx), all 8-lane accesses stay inside the planes and the destination (InBounds), the x loop meets its end (Exits), whenever the dispatcher selects the vector loop; the `always` deviation (pinned tree) violates SameIdx. Every geometry is laid out byte for byte inside guarded backing arrays and converted by transforms32.ImageToGray (the dispatcher the hash uses): each luminance within 2.0 of the value of the pixel at that coordinate and of the portable conversion, guard zones around destination and planes intact, output independent of the bytes around the planes; a worker that dies (SIGSEGV) is the violation"
	cfg := "YCbCr.quick.cfg"
	if r.Tier == "thorough" {
		cfg = "YCbCr.cfg"
	}
	d, err := core.RunTLC(core.TLCOpts{Module: "MC_YCbCr", Cfg: "YCbCr.always.cfg", Workers: 2, Timeout: 10 * time.Minute})
	if err != nil || d.Violated != "SameIdx" {
		r.Machinery("YCbCr (`always` dispatch deviation) was expected to violate SameIdx in the model, got %q: %v", d.Violated, err)
		d.Cleanup()
		return
	}
	r.Extra["deviation_always"] = "violates SameIdx"
	d.Cleanup()
	t, err := core.RunTLC(core.TLCOpts{Module: "MC_YCbCr", Cfg: cfg, Workers: 8, Timeout: 40 * time.Minute})
	defer t.Cleanup()
	if err != nil || !t.OK {
		r.Machinery("TLC run on YCbCr failed: %v %s", err, tail(t))
		return
	}
	r.AddTLC("YCbCr", t)
	type geom struct {
		G      json.RawMessage `json:"g"`
		Vector int             `json:"vector"`
	}
	var gs []geom
	_, err = core.ReadEmitted(filepath.Join(t.Dir, "emit.ndjson"), func(raw json.RawMessage) error {
		var g geom
		if e := json.Unmarshal(raw, &g); e != nil {
			return e
		}
		gs = append(gs, g)
		return nil
	})
	if err != nil || len(gs) == 0 {
		r.Machinery("reading emitted geometries: %v (n=%d)", err, len(gs))
		return
	}
	var ops []core.Op
	var opG []int
	fill := 3
	if r.Tier == "thorough" {
		fill = 6
	}
	for i, g := range gs {
		for k := 0; k < fill; k++ {
			a, _ := json.Marshal(map[string]interface{}{"g": g.G, "seed": r.Seed*1000 + int64(i*7+k)})
			ops = append(ops, core.Op{ID: len(ops), Kind: "ycbcr", Cut: -1, Args: a})
			opG = append(opG, i)
		}
	}
	obs, err := core.RunOps(ops, core.WorkerOpts{Shards: 14, Stall: 15 * time.Second})
	if err != nil {
		r.Machinery("worker: %v", err)
		return
	}
	vec := 0
	for i := range obs {
		if obs[i].Skipped {
			continue // not executed: the run had already met many calls that do not return
		}
		o, op, g := &obs[i], &ops[i], &gs[opG[i]]
		var gg struct {
			Ratio, MinX, MinY, W, Ys, Cs int
		}
		json.Unmarshal(g.G, &gg)
		cls := fmt.Sprintf("ratio%d", gg.Ratio)
		if gg.Ratio == 444 {
			switch {
			case gg.MinX != 0 || gg.MinY != 0:
				cls = "444-origin"
			case gg.Ys != gg.W || gg.Cs != gg.W:
				cls = "444-stride"
			default:
				cls = "444-packed"
			}
		}
		desc := map[string]interface{}{"geometry": json.RawMessage(g.G), "vector_loop_by_design": g.Vector}
		r.Cases++
		if o.Bad() {
			r.Violate("ycbcr:"+o.BadKind()+":"+cls, fmt.Sprintf("converting a YCbCr image with geometry %s: %s %s%s", string(g.G), o.BadKind(), o.Panic, firstLines(o.Crash, 3)), replayOf(op, o, desc))
			continue
		}
		var res struct {
			Bad []string `json:"bad"`
			Asm bool     `json:"asm"`
		}
		json.Unmarshal(o.R, &res)
		if res.Asm && g.Vector == 1 {
			vec++
		}
		for _, b := range res.Bad {
			r.Violate("ycbcr:wrong:"+cls, fmt.Sprintf("geometry %s: %s", string(g.G), b), replayOf(op, o, desc))
		}
		if i%200 == 0 {
			r.Sample(desc)
		}
	}
	r.Extra["geometries"] = len(gs)
	r.Extra["runs_on_vector_path"] = vec
	r.Assumptions = append(r.Assumptions,
		"the <= 2.0 luminance tolerance is a numeric check of the harness; the specification decides which bytes are read and written",
		"the vector loop cannot carry hooks: it is bound by byte-exact plane layouts with guard zones, junk around the planes and an independent per-pixel expectation (image.YCbCr.YCbCrAt + the documented luminance formula)")
}
