package props

import (
	"bytes"
	"encoding/json"
	"fmt"
	"math/rand"
	"path/filepath"
	"time"

	"verif/core"
	"verif/gen"
)

func init() { Register("C11", runC11) }

type bmffCall struct {
	Kind  string `json:"kind"`
	N     int    `json:"n"`
	From  int    `json:"from"`
	Upto  int    `json:"upto"`
	First int    `json:"first"`
	Took  int    `json:"took"`
}

type bmffCase struct {
	Nodes []gen.BNode `json:"nodes"`
	Cons  string      `json:"cons"`
	Lie   struct {
		Who string `json:"who"`
		Cls string `json:"cls"`
	} `json:"lie"`
	Calls []bmffCall `json:"calls"`
	Tops  []int      `json:"tops"`
	Res   string     `json:"res"`
	Len   int        `json:"len"`
}

type bwalk struct {
	Calls []struct {
		Kind  string `json:"kind"`
		Got   []byte `json:"got"`
		First int    `json:"first"`
		Ifd0  uint32 `json:"ifd0"`
		Len   uint32 `json:"len"`
		Size  uint32 `json:"size"`
		Err   string `json:"err"`
	} `json:"calls"`
	Tops []int64 `json:"tops"`
}

func runC11(r *core.Run) {
	rng := rand.New(rand.NewSource(r.Seed))
	r.Rule = "TLC enumerates Canon CR3 shaped box trees: every sequence of up to MaxKids children of the metadata uuid box over {CNCV, CTBO, CMT1-4, free}, optional siblings, every sequence of up to MaxTail top-level boxes after moov over {xpacket uuid, preview uuid, other uuid, unknown, mdat}, the 64-bit size form on one box, at most one size lie (one of 5 boxes x {-1, +4, +100, 0, hdr-1}) and the XMP callback's consumption; Contain/RemainOK/AfterTop/Payload/AllHanded/NoErrorWF/Progress are invariants of the reader design. Each terminal state is concretised and walked with ReadFTYP + ReadMetadata and recording callbacks (generic consumers: io.ReadAll); every recorded execution (also of the repository samples and of malformed/truncated files of the fault corpus) must be accepted by the open trace acceptor Trace_Bmff with Contain evaluated at every event"
	cfg := "Bmff.quick.cfg"
	if r.Tier == "thorough" {
		cfg = "Bmff.thorough.cfg"
	}
	live, err := core.RunTLC(core.TLCOpts{Module: "MC_Bmff", Cfg: "Bmff.live.cfg", Workers: 4, Timeout: 10 * time.Minute})
	if err != nil || !live.OK {
		r.Machinery("TLC liveness run on Bmff failed: %v %s", err, tail(live))
		live.Cleanup()
		return
	}
	r.AddTLC("Bmff.live", live)
	live.Cleanup()
	t, err := core.RunTLC(core.TLCOpts{Module: "MC_Bmff", Cfg: cfg, Workers: 8, Timeout: 60 * time.Minute})
	defer t.Cleanup()
	if err != nil || !t.OK {
		r.Machinery("TLC run on Bmff failed: %v %s", err, tail(t))
		return
	}
	r.AddTLC("Bmff", t)
	var cases []bmffCase
	_, err = core.ReadEmitted(filepath.Join(t.Dir, "emit.ndjson"), func(raw json.RawMessage) error {
		var c bmffCase
		if e := json.Unmarshal(raw, &c); e != nil {
			return e
		}
		cases = append(cases, c)
		return nil
	})
	if err != nil || len(cases) == 0 {
		r.Machinery("reading emitted Bmff cases: %v (n=%d)", err, len(cases))
		return
	}
	var ops []core.Op
	for i := range cases {
		c := &cases[i]
		a, _ := json.Marshal(map[string]interface{}{"cons": c.Cons})
		ops = append(ops, core.Op{ID: i, Kind: "bmffwalk", Data: gen.BuildBoxTree(c.Nodes, rng), Cut: -1, Args: a, Trace: true})
	}
	ngen := len(ops)
	// open traces of anything else: repository ISOBMFF samples, and malformed / truncated files of the fault corpus
	var extra []string
	for _, s := range repoSamples(256 * 1024) {
		if s.Kind == "cr3" || s.Kind == "heif" || s.Kind == "avif" {
			a, _ := json.Marshal(map[string]interface{}{"cons": "all"})
			ops = append(ops, core.Op{ID: len(ops), Kind: "bmffwalk", Data: s.Data, Cut: -1, Args: a, Trace: true})
			extra = append(extra, s.Name)
		}
	}
	fcases, _, ok := buildFaultCases(r, rng, false)
	if !ok {
		return
	}
	nf := 3000
	if r.Tier == "thorough" {
		nf = 30000
	}
	step := len(fcases)/nf + 1
	for i := rng.Intn(step); i < len(fcases); i += step {
		fc := &fcases[i]
		if k := fc.in.Kind; k != "cr3" && k != "heif" && k != "avif" {
			continue
		}
		a, _ := json.Marshal(map[string]interface{}{"cons": []string{"all", "part", "none"}[i%3]})
		ops = append(ops, core.Op{ID: len(ops), Kind: "bmffwalk", Data: fc.in.Data, Cut: fc.cut, Fault: fc.fault, Args: a, Trace: true})
		extra = append(extra, fc.in.Name+": "+fc.what)
	}
	obs, err := core.RunOps(ops, core.WorkerOpts{Stall: 10 * time.Second})
	if err != nil {
		r.Machinery("worker: %v", err)
		return
	}
	var ts traceSet
	for i := range obs {
		if obs[i].Skipped {
			continue // not executed: the run had already met many calls that do not return
		}
		o, op := &obs[i], &ops[i]
		var desc interface{}
		var c *bmffCase
		if i < ngen {
			c = &cases[i]
			desc = c
		} else {
			desc = map[string]interface{}{"input": extra[i-ngen]}
		}
		if o.Bad() {
			if i < ngen { // panics/hangs on arbitrary malformed files are C01/C02's subject; on generated trees they are reported here too
				r.Violate("bmff:"+o.BadKind()+"@"+o.Site, fmt.Sprintf("walking a generated box tree: %s %s%s", o.BadKind(), o.Panic, o.Crash), replayOf(op, o, desc))
			}
			continue
		}
		r.Cases++
		var got bwalk
		json.Unmarshal(o.R, &got)
		var tops []int
		if c != nil && c.Lie.Who == "none" {
			tops = c.Tops
			checkBmffCase(r, c, op, o, &got)
		}
		if tops == nil {
			tops = []int{}
		}
		r.Events += ts.add(i, map[string]interface{}{"e": "start", "tops": tops}, clampEvents(o.Events, 1<<29), "bmff")
		o.Events = nil
		if i%4000 == 0 && c != nil {
			r.Sample(map[string]interface{}{"nodes": c.Nodes, "lie": c.Lie, "cons": c.Cons, "expected_tops": c.Tops, "expected_calls": c.Calls})
		}
	}
	validateTraces(r, "Trace_Bmff", "Trace_Bmff.cfg", "isobmff.Reader", ops, obs, ts.lines, ts.owner)
	bindingSelfTest(r, "Trace_Bmff", "Trace_Bmff.cfg", &ts, "cb>", 1, 3) // a hand-off with 3 bytes more than the box has left
	r.Extra["generated_trees"] = ngen
	r.Extra["open_traces_of_samples_and_malformed_files"] = len(ops) - ngen
	r.Assumptions = append(r.Assumptions,
		"generated boxes are at least 16 bytes long (the reader frames boxes with a 16-byte look-ahead); 8..15-byte trailing children are not enumerated",
		"for trees with a size lie only containment is demanded (every event of the recorded execution), not a particular resynchronisation",
		"HEIF/AVIF item boxes (iinf/iloc/mdat Exif item) are judged by the open trace acceptor only")
}

func checkBmffCase(r *core.Run, c *bmffCase, op *core.Op, o *core.Obs, got *bwalk) {
	ent := "isobmff.Reader:"
	if o.Err != "" {
		r.Violate(ent+"error-on-wellformed", "well-formed tree: error "+o.Err, replayOf(op, o, c))
		return
	}
	if len(got.Tops) != len(c.Tops) {
		r.Violate(ent+"top-level-calls", fmt.Sprintf("%d top-level boxes processed, the tree has %d", len(got.Tops), len(c.Tops)), replayOf(op, o, c))
		return
	}
	for k := range c.Tops {
		if int(got.Tops[k]) != c.Tops[k] {
			typ := "?"
			n := 0
			for _, nd := range c.Nodes {
				if nd.Depth == 0 {
					if n == k {
						typ = nd.Typ
					}
					n++
				}
			}
			r.Violate(ent+"after-top:"+typ, fmt.Sprintf("after top-level box %d (%s) the reader stands at %d, the next top-level box starts at %d", k+1, typ, got.Tops[k], c.Tops[k]), replayOf(op, o, c))
			return
		}
	}
	if len(got.Calls) != len(c.Calls) {
		r.Violate(ent+"callback-count", fmt.Sprintf("%d callbacks, specification says %d", len(got.Calls), len(c.Calls)), replayOf(op, o, c))
		return
	}
	for k, w := range c.Calls {
		g := got.Calls[k]
		typ := c.Nodes[w.N-1].Typ
		if g.Kind != w.Kind {
			r.Violate(ent+"callback-kind", fmt.Sprintf("callback %d is %s, specification says %s (%s)", k+1, g.Kind, w.Kind, typ), replayOf(op, o, c))
			return
		}
		want := op.Data[w.From : w.From+w.Took]
		if !bytes.Equal(g.Got, want) {
			r.Violate(ent+"payload:"+w.Kind, fmt.Sprintf("the %s callback of box %s obtained %d bytes (error %q) from its reader, the payload offered is %d bytes [%d,%d) of which the consumer takes %d", w.Kind, typ, len(g.Got), g.Err, w.Upto-w.From, w.From, w.Upto, w.Took), replayOf(op, o, c))
		}
		if w.Kind == "exif" {
			if g.First != w.First {
				r.Violate(ent+"first-ifd:"+typ, fmt.Sprintf("box %s handed off with directory type %d, specification says %d", typ, g.First, w.First), replayOf(op, o, c))
			}
			if int(g.Len) != w.Upto-w.From+8 || g.Ifd0 != 8 {
				r.Violate(ent+"exif-header:"+typ, fmt.Sprintf("box %s: header length %d / first IFD %d, payload has %d bytes and its first IFD at 8", typ, g.Len, g.Ifd0, w.Upto-w.From+8), replayOf(op, o, c))
			}
		}
		if w.Kind == "prev" && int(g.Size) != w.Upto-w.From {
			r.Violate(ent+"preview-size", fmt.Sprintf("preview header size %d, payload has %d bytes", g.Size, w.Upto-w.From), replayOf(op, o, c))
		}
	}
}

// clampEvents limits hook arguments to max (TLC integers are 32 bit; values beyond any input length are equivalent).
func clampEvents(evs []json.RawMessage, max int64) []json.RawMessage {
	out := make([]json.RawMessage, 0, len(evs))
	for _, e := range evs {
		var ev struct {
			P string  `json:"p"`
			E string  `json:"e"`
			A []int64 `json:"a"`
		}
		if json.Unmarshal(e, &ev) != nil {
			out = append(out, e)
			continue
		}
		changed := false
		for k, v := range ev.A {
			if v > max {
				ev.A[k], changed = max, true
			} else if v < -max {
				ev.A[k], changed = -max, true
			}
		}
		if changed {
			e, _ = json.Marshal(ev)
		}
		out = append(out, e)
	}
	return out
}
