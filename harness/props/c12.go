// Package props holds the per-property drivers: run TLC on the specification,
// replay what TLC generated on the real code, validate recorded traces against
// the specification, and turn disagreements observed on the real code into verdicts.
package props

import (
	"encoding/binary"
	"encoding/hex"
	"encoding/json"
	"fmt"
	"math/rand"
	"path/filepath"
	"time"

	"verif/core"
	"verif/gen"
)

type tiffCase struct {
	Pre []string `json:"pre"`
	Hdr string   `json:"hdr"`
	Ifd []string `json:"ifd"`
	Off int      `json:"off"`
	BO  string   `json:"bo"`
}

type tiffObs struct {
	Off      uint32 `json:"off"`
	BO       int    `json:"bo"`
	Ifd0     uint32 `json:"ifd0"`
	FirstIfd int    `json:"firstIfd"`
	Len      uint32 `json:"len"`
	Next     string `json:"next"`
}

func init() { Register("C12", runC12) }

func tiffStream(c *tiffCase, rng *rand.Rand) []byte {
	b := gen.SymBytes(c.Pre, rng)
	switch c.Hdr {
	case "LE":
		b = append(b, 'I', 'I', 0x2a, 0x00)
	case "BE":
		b = append(b, 'M', 'M', 0x00, 0x2a)
	}
	if c.Hdr != "NONE" && c.Hdr != "" {
		b = append(b, gen.SymBytes(c.Ifd, rng)...) // the stored first-directory offset: data, in the model's classes
	}
	for i := 0; i < 32; i++ { // the rest: bytes outside the signature alphabet ("X" in the model)
		b = append(b, gen.OtherByte(rng))
	}
	return b
}

func runC12(r *core.Run) {
	rng := rand.New(rand.NewSource(r.Seed))
	r.Rule = "TLC enumerates every prefix over the signature alphabet {I,M,*,0x00,other} up to MaxPre symbols x header kind {II,MM,none}; each terminal state is one case replayed on tiff.ScanTiffHeader; non-trivial = distinct (prefix,header) pairs; plus seeded random streams judged by the trace acceptor"
	cfg := "TiffScan.quick.cfg"
	if r.Tier == "thorough" {
		cfg = "TiffScan.thorough.cfg"
	}
	// E3: the design has the property (bounded, exhaustive) + liveness on the small config
	live, err := core.RunTLC(core.TLCOpts{Module: "TiffScan", Cfg: "TiffScan.live.cfg", Workers: 4, Timeout: 5 * time.Minute})
	if err != nil || !live.OK {
		r.Machinery("TLC liveness run failed: %v %s", err, tail(live))
		live.Cleanup()
		return
	}
	r.AddTLC("TiffScan.live", live)
	live.Cleanup()
	t, err := core.RunTLC(core.TLCOpts{Module: "TiffScan", Cfg: cfg, Workers: 4, Timeout: 40 * time.Minute, Coverage: r.Tier == "thorough"})
	defer t.Cleanup()
	if err != nil || !t.OK {
		r.Machinery("TLC run on TiffScan failed (spec-level problem, not a verdict about the code): %v %s", err, tail(t))
		return
	}
	r.AddTLC("TiffScan", t)

	// E1: replay every emitted case
	var cases []tiffCase
	var ops []core.Op
	_, err = core.ReadEmitted(filepath.Join(t.Dir, "emit.ndjson"), func(raw json.RawMessage) error {
		var c tiffCase
		if e := json.Unmarshal(raw, &c); e != nil {
			return e
		}
		cases = append(cases, c)
		return nil
	})
	if err != nil || len(cases) == 0 {
		r.Machinery("reading emitted cases: %v (n=%d)", err, len(cases))
		return
	}
	traceEvery := 12
	if r.Tier == "thorough" {
		traceEvery = 40
	}
	for i := range cases {
		ops = append(ops, core.Op{ID: i, Kind: "tiffscan", Data: tiffStream(&cases[i], rng), Cut: -1, Trace: i%traceEvery == 0, Args: bufArg(i)})
	}
	// seeded random streams, far beyond the enumeration bound, judged by the trace acceptor
	nrand := 300
	if r.Tier == "thorough" {
		nrand = 3000
	}
	base := len(ops)
	for i := 0; i < nrand; i++ {
		ops = append(ops, core.Op{ID: base + i, Kind: "tiffscan", Data: randomTiffStream(rng), Cut: -1, Trace: true, Args: bufArg(i)})
	}
	obs, err := core.RunOps(ops, core.WorkerOpts{})
	if err != nil {
		r.Machinery("worker: %v", err)
		return
	}
	var traceLines [][]byte
	var traceOwner []int // op index per trace line
	for i := range obs {
		if obs[i].Skipped {
			continue // not executed: the run had already met many calls that do not return
		}
		o := &obs[i]
		op := &ops[i]
		if o.Bad() {
			r.Violate("tiff.ScanTiffHeader:"+o.BadKind()+"@"+o.Site, fmt.Sprintf("%s %s%s", o.BadKind(), o.Panic, o.Crash), replayOf(op, o, nil))
			continue
		}
		if i < len(cases) {
			r.Cases++
			checkTiffCase(r, &cases[i], op, o)
			if i < 3 {
				r.Sample(map[string]interface{}{"case": cases[i], "observed": json.RawMessage(o.R), "err": o.Err})
			}
		}
		if op.Trace {
			st, _ := json.Marshal(map[string]interface{}{"e": "start", "stream": gen.BytesSym(op.Data)})
			traceLines = append(traceLines, st)
			traceOwner = append(traceOwner, i)
			for _, e := range o.Events {
				traceLines = append(traceLines, e)
				traceOwner = append(traceOwner, i)
			}
			r.Events += len(o.Events)
		}
	}
	// E2: the recorded executions must be behaviours of the specification
	validateTraces(r, "Trace_TiffScan", "Trace_TiffScan.cfg", "tiff.ScanTiffHeader", ops, obs, traceLines, traceOwner)
	if r.Tier == "thorough" {
		bindingSelfTestTiff(r, traceLines)
	}
	r.Assumptions = append(r.Assumptions,
		"prefix enumeration is exhaustive up to MaxPre symbols (quick 6, thorough 8); longer prefixes only via seeded random streams",
		"bytes outside {0x49,0x4d,0x2a,0x00} are interchangeable for the search (one abstract symbol)",
		"a signature with fewer than 28 bytes after it is outside the property and not generated")
}

// bufArg varies the size of the caller-owned bufio.Reader (the search must leave *that* reader at the header).
func bufArg(i int) json.RawMessage {
	sizes := []int{4096, 32, 64, 1024, 4095, 8192, 33}
	return json.RawMessage(fmt.Sprintf(`{"buf":%d}`, sizes[i%len(sizes)]))
}

func randomTiffStream(rng *rand.Rand) []byte {
	n := rng.Intn(6000)
	if rng.Intn(3) == 0 {
		n = rng.Intn(80)
	}
	b := make([]byte, 0, n+40)
	alpha := []byte{0x49, 0x4d, 0x2a, 0x00}
	for len(b) < n {
		switch rng.Intn(10) {
		case 0, 1, 2, 3, 4:
			b = append(b, alpha[rng.Intn(4)])
		case 5:
			b = append(b, 'I', 'I', 0x2a) // near miss
		case 6:
			b = append(b, 'M', 'M', 0x00)
		default:
			b = append(b, byte(rng.Intn(256)))
		}
	}
	switch rng.Intn(4) {
	case 0:
		b = append(b, 'I', 'I', 0x2a, 0x00)
	case 1:
		b = append(b, 'M', 'M', 0x00, 0x2a)
	}
	tail := 28 + rng.Intn(8)
	if rng.Intn(5) == 0 {
		tail = rng.Intn(28) // short tail: Peek(32) cannot succeed at the header
	}
	for i := 0; i < tail; i++ {
		b = append(b, byte(rng.Intn(256)))
	}
	return b
}

func checkTiffCase(r *core.Run, c *tiffCase, op *core.Op, o *core.Obs) {
	var got tiffObs
	json.Unmarshal(o.R, &got)
	ent := "tiff.ScanTiffHeader:"
	if c.Off < 0 {
		if o.Err == "" {
			r.Violate(ent+"false-find", "header reported in a stream without signature", replayOf(op, o, c))
		} else if !hasStr(o.ErrIs, "ErrNoExif") {
			r.Violate(ent+"wrong-error", "stream without signature: error is not the 'no Exif' error: "+o.Err, replayOf(op, o, c))
		}
		return
	}
	if o.Err != "" {
		r.Violate(ent+"missed-signature", "signature present but error returned: "+o.Err, replayOf(op, o, c))
		return
	}
	if int(got.Off) != c.Off {
		r.Violate(ent+"offset", fmt.Sprintf("offset %d, specification says %d", got.Off, c.Off), replayOf(op, o, c))
		return
	}
	wantBO := 1
	var ifd0 uint32
	if c.BO == "BE" {
		wantBO = 2
		ifd0 = binary.BigEndian.Uint32(op.Data[c.Off+4:])
	} else {
		ifd0 = binary.LittleEndian.Uint32(op.Data[c.Off+4:])
	}
	if got.BO != wantBO {
		r.Violate(ent+"byte-order", fmt.Sprintf("byte order %d, specification says %s", got.BO, c.BO), replayOf(op, o, c))
	}
	if got.Ifd0 != ifd0 {
		r.Violate(ent+"first-ifd-offset", fmt.Sprintf("first IFD offset %#x, file has %#x", got.Ifd0, ifd0), replayOf(op, o, c))
	}
	if got.FirstIfd != 1 {
		r.Violate(ent+"first-ifd-type", fmt.Sprintf("first IFD type %d, want IFD0", got.FirstIfd), replayOf(op, o, c))
	}
	if got.Next != hex.EncodeToString(op.Data[c.Off:c.Off+4]) {
		r.Violate(ent+"position-after", "stream is not positioned at the reported header: next bytes "+got.Next, replayOf(op, o, c))
	}
}

func bindingSelfTestTiff(r *core.Run, lines [][]byte) {
	// corrupt one recorded field and delete one event: both must be rejected
	var idx = -1
	for i, l := range lines {
		var e struct {
			E string  `json:"e"`
			A []int64 `json:"a"`
		}
		json.Unmarshal(l, &e)
		if e.E == "found" && i > 50 {
			idx = i
			break
		}
	}
	if idx < 0 {
		r.Machinery("binding self-test: no found event")
		return
	}
	n := idx + 200
	if n > len(lines) {
		n = len(lines)
	}
	// cut at a run boundary is not needed: the acceptor may stop early, we only need rejection
	cor := make([][]byte, n)
	copy(cor, lines[:n])
	var e map[string]interface{}
	json.Unmarshal(cor[idx], &e)
	a := e["a"].([]interface{})
	a[0] = a[0].(float64) + 1
	cor[idx], _ = json.Marshal(e)
	tr, err := core.ValidateTrace("Trace_TiffScan", "Trace_TiffScan.cfg", cor, false, 5*time.Minute)
	if err == nil {
		tr.TLC.Cleanup()
	}
	if err != nil || tr.Accepted || tr.Matched != idx {
		r.Machinery("binding self-test failed: corrupted offset not rejected at the corrupted event (err=%v)", err)
		return
	}
	del := append(append([][]byte{}, lines[:idx-1]...), lines[idx:n]...)
	tr, err = core.ValidateTrace("Trace_TiffScan", "Trace_TiffScan.cfg", del, false, 5*time.Minute)
	if err == nil {
		tr.TLC.Cleanup()
	}
	if err != nil || tr.Accepted {
		// deleting a "step" before found must break the position bookkeeping; deleting a start merges runs
		r.Machinery("binding self-test failed: trace with a deleted event accepted (err=%v)", err)
		return
	}
	r.Extra["binding_selftest"] = "corrupted field rejected at the corrupted event; deleted event rejected"
}
