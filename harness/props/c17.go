package props

import (
	"encoding/json"
	"fmt"
	"path/filepath"
	"time"

	"verif/core"
)

func init() { Register("C17", runC17) }

type enumTable struct {
	Type      string          `json:"type"`
	Lo        int             `json:"lo"`
	Hi        int             `json:"hi"`
	Doc       [][]interface{} `json:"doc"`
	Fallback  string          `json:"fallback"`
	RoundTrip int             `json:"roundtrip"`
}

func runC17(r *core.Run) {
	r.Rule = "TLC checks the stringer specification EnumTables over the WHOLE value domain of every exported enumeration (2^8 / 2^16 values, signed domains from -32768): NoOOB of the offset-table mechanism under each type's guard (the signed-type-without-lower-bound deviation violates it), DocOK, RoundTripOK; the documented tables are emitted and the real String()/Extension() is called on every value of every domain: returns (no panic), equals the documented name for documented values and the documented fallback otherwise; FromString / IdentifyNamespace / CameraMakeFromString / UnmarshalText of every documented name gives the value back; TagName and tag.ID.String are total over all IfdType x 2^16 ids"
	t, err := core.RunTLC(core.TLCOpts{Module: "MC_EnumTables", Cfg: "EnumTables.cfg", Workers: 8, Timeout: 20 * time.Minute})
	defer t.Cleanup()
	if err != nil || !t.OK {
		r.Machinery("TLC run on EnumTables failed: %v %s", err, tail(t))
		return
	}
	r.AddTLC("EnumTables", t)
	d, err := core.RunTLC(core.TLCOpts{Module: "MC_EnumTables", Cfg: "EnumTables.deviant.cfg", Workers: 2, Timeout: 10 * time.Minute})
	if err != nil || d.Violated == "" {
		r.Machinery("EnumTables (signed type guarded only from above) was expected to violate NoOOB in the model: %v %s", err, tail(d))
		d.Cleanup()
		return
	}
	r.Extra["deviation_signedNoLower"] = "violates " + d.Violated
	d.Cleanup()
	var tables []enumTable
	_, err = core.ReadEmitted(filepath.Join(t.Dir, "emit.ndjson"), func(raw json.RawMessage) error {
		var e enumTable
		if er := json.Unmarshal(raw, &e); er != nil {
			return er
		}
		tables = append(tables, e)
		return nil
	})
	if err != nil || len(tables) == 0 {
		r.Machinery("reading emitted tables: %v (n=%d)", err, len(tables))
		return
	}
	var ops []core.Op
	for _, tb := range tables {
		var names []string
		if tb.RoundTrip == 1 {
			for _, p := range tb.Doc {
				names = append(names, p[1].(string))
			}
		}
		a, _ := json.Marshal(map[string]interface{}{"type": tb.Type, "lo": tb.Lo, "hi": tb.Hi, "names": names})
		ops = append(ops, core.Op{ID: len(ops), Kind: "enumstr", Cut: -1, Args: a})
	}
	nEnum := len(ops)
	for it := 0; it < 256; it += 16 {
		a, _ := json.Marshal(map[string]int{"Lo": it, "Hi": it + 15})
		ops = append(ops, core.Op{ID: len(ops), Kind: "tagnames", Cut: -1, Args: a, Heavy: true})
	}
	obs, err := core.RunOps(ops, core.WorkerOpts{Shards: 16})
	if err != nil {
		r.Machinery("worker: %v", err)
		return
	}
	values := 0
	for i := 0; i < nEnum; i++ {
		tb, o, op := &tables[i], &obs[i], &ops[i]
		if o.Bad() {
			r.Machinery("enum op for %s did not complete: %s%s", tb.Type, o.Panic, o.Crash)
			continue
		}
		var res struct {
			Runs []struct {
				From int
				S    string
				P    bool
			} `json:"runs"`
			Parsed map[string]int `json:"parsed"`
		}
		json.Unmarshal(o.R, &res)
		doc := map[int]string{}
		for _, p := range tb.Doc {
			doc[int(p[0].(float64))] = p[1].(string)
		}
		for k, run := range res.Runs {
			to := tb.Hi
			if k+1 < len(res.Runs) {
				to = res.Runs[k+1].From - 1
			}
			for v := run.From; v <= to; v++ {
				values++
				want, documented := doc[v]
				if !documented {
					want = tb.Fallback
				}
				switch {
				case run.P:
					r.Violate("enum:"+tb.Type+":panic", fmt.Sprintf("%s(%d).String() panics: %s", tb.Type, v, run.S), replayOf(op, nil, map[string]interface{}{"type": tb.Type, "value": v}))
				case run.S != want && documented:
					r.Violate("enum:"+tb.Type+":name", fmt.Sprintf("%s(%d) formats as %q, documented name %q", tb.Type, v, run.S, want), replayOf(op, nil, map[string]interface{}{"type": tb.Type, "value": v}))
				case run.S != want:
					r.Violate("enum:"+tb.Type+":fallback", fmt.Sprintf("%s(%d) (undocumented value) formats as %q, documented fallback %q", tb.Type, v, run.S, want), replayOf(op, nil, map[string]interface{}{"type": tb.Type, "value": v}))
				}
			}
		}
		if tb.RoundTrip == 1 {
			for v, name := range doc {
				if tb.Type == "meta.MeteringMode" || tb.Type == "meta.ExposureMode" || tb.Type == "meta.ExposureProgram" {
					if _, ok := res.Parsed[name]; !ok {
						continue
					}
				}
				if got, ok := res.Parsed[name]; !ok || got != v {
					r.Violate("enum:"+tb.Type+":parse", fmt.Sprintf("parsing the documented name %q of %s gives %d, not the value %d it names", name, tb.Type, got, v), replayOf(op, nil, map[string]interface{}{"type": tb.Type, "name": name}))
				}
			}
		}
		r.Cases++
		r.Sample(map[string]interface{}{"type": tb.Type, "domain": []int{tb.Lo, tb.Hi}, "documented": len(tb.Doc), "fallback": tb.Fallback, "runs_observed": len(res.Runs)})
	}
	for i := nEnum; i < len(ops); i++ {
		o := &obs[i]
		if o.Bad() {
			r.Violate("enum:TagName:"+o.BadKind(), fmt.Sprintf("TagName enumeration did not complete: %s%s", o.Panic, o.Crash), replayOf(&ops[i], o, nil))
			continue
		}
		var res struct {
			Bad []string `json:"bad"`
		}
		json.Unmarshal(o.R, &res)
		for _, b := range res.Bad {
			r.Violate("enum:TagName:panic", b, replayOf(&ops[i], o, nil))
		}
		values += 16 * 65536
		r.Cases++
	}
	r.Extra["values_formatted"] = values
	runMarkerNames(r)
	r.Extra["types"] = len(tables)
	r.Assumptions = append(r.Assumptions, "the documented tables (spec/MC_EnumTables.tla) are the reference: names of the large tag-id maps are checked for totality only; camera-model families (Canon/Apple/Nikon/Sony model maps) are checked through CameraMake only")
}

// runMarkerNames: the names of the JPEG marker codes are formatted by a type that is not exported; the only public way
// to them is the scanner's log line. A stream that carries a segment of EVERY marker code with a length field in front
// of the quantisation table is scanned with the logger at trace level: the call must return as at the default level.
func runMarkerNames(r *core.Run) {
	d := []byte{0xFF, 0xD8}
	for m := 0x02; m <= 0xFE; m++ {
		if m == 0xDB || m == 0xC4 || (m >= 0xD0 && m <= 0xD9) { // DQT and DHT end the scan; RSTn/SOI/EOI carry no length
			continue
		}
		d = append(d, 0xFF, byte(m), 0x00, 0x06, 1, 2, 3, 4)
	}
	d = append(d, 0xFF, 0xDB, 0x00, 0x43)
	d = append(d, make([]byte, 65+64)...)
	var ops []core.Op
	for _, lvl := range []string{"", "trace:discard", "info:buf"} {
		ops = append(ops, core.Op{ID: len(ops), Kind: "call", Data: d, Cut: -1, Args: callArgsJSON("ScanJPEG"), Level: lvl})
	}
	obs, err := core.RunOps(ops, core.WorkerOpts{Stall: 20 * time.Second})
	if err != nil {
		r.Machinery("worker: %v", err)
		return
	}
	for i := range obs {
		o := &obs[i]
		r.Cases++
		if o.Bad() {
			r.Violate("enum:jpeg.marker:"+o.BadKind(), fmt.Sprintf("formatting the marker codes of a stream that carries every code (logger %q): %s %s%s", ops[i].Level, o.BadKind(), o.Panic, firstLines(o.Crash, 3)), replayOf(&ops[i], o, nil))
		} else if o.Err != obs[0].Err {
			r.Violate("enum:jpeg.marker:result", fmt.Sprintf("scan of a stream that carries every marker code returns %q with the logger at %s and %q at the default level", o.Err, ops[i].Level, obs[0].Err), replayOf(&ops[i], o, nil))
		}
	}
}
