package props

import (
	"encoding/json"
	"fmt"
	"math/rand"
	"sort"

	"verif/core"
	"verif/gen"
)

func init() {
	Register("C06", func(r *core.Run) { runContainers(r, "C06") })
	Register("C07", func(r *core.Run) { runContainers(r, "C07") })
}

// contEntry is one (container, entry point) pair and the image type the container has.
type contEntry struct {
	Cont  string
	Entry string
	Type  float64 // imagetype.ImageType value expected in the result
}

// image type values (imagetype/imagetype.go iota order), checked against the library at start-up by the "itypes" op
var itypeOf = map[string]float64{}

var contEntries = []contEntry{
	{"tiff", "Decode", 0}, {"tiff", "DecodeTiff", 0}, {"tiff", "Parse", 0},
	{"jpeg", "Decode", 0}, {"jpeg", "DecodeJPEG", 0},
	{"png", "DecodePng", 0},
	{"cr3", "Decode", 0}, {"cr3", "DecodeCR3", 0},
	{"cr3split", "DecodeCR3", 0},
	{"heif", "Decode", 0}, {"heif", "DecodeHeif", 0},
	{"cr3", "BmffReader", 0},
	{"cr2", "Decode", 0}, {"cr2", "DecodeCR2", 0}, {"cr2", "Parse", 0},
}

var contType = map[string]string{"tiff": "TIFF", "jpeg": "JPEG", "png": "PNG", "cr3": "CR3", "cr3split": "CR3", "heif": "HEIF", "avif": "AVIF", "cr2": "CR2"}

// splitCR3 builds the CMT1/CMT2/CMT4 blocks of a case: IFD0 fields, Exif fields, GPS fields, each its own TIFF block.
func splitCR3(it *exifItem, bo string, ifdAt int) gen.CR3Parts {
	var d0 []gen.AEntry
	for _, e := range it.C.Dirs["IFD0"] {
		if e.Cls != "exifptr" && e.Cls != "gpsptr" {
			d0 = append(d0, e)
		}
	}
	p := gen.CR3Parts{CMT1: gen.BuildDirTIFF(d0, it.Bind, bo, ifdAt)}
	if len(it.C.Dirs["Exif"]) > 0 {
		p.CMT2 = gen.BuildDirTIFF(it.C.Dirs["Exif"], it.Bind, bo, ifdAt)
	}
	if len(it.C.Dirs["GPS"]) > 0 {
		p.CMT4 = gen.BuildDirTIFF(it.C.Dirs["GPS"], it.Bind, bo, ifdAt)
	}
	return p
}

func wrapContainer(cont string, it *exifItem, bo string, rng *rand.Rand, lvl int) []byte {
	t := it.Tiff[bo]
	switch cont {
	case "jpeg":
		return gen.WrapJPEG(t, rng, lvl)
	case "png":
		return gen.WrapPNG(t, rng, lvl)
	case "cr3":
		return gen.WrapCR3(gen.CR3Parts{CMT1: t}, rng, lvl)
	case "cr3split":
		return gen.WrapCR3(splitCR3(it, bo, 8+8*(lvl%2)), rng, lvl)
	case "heif":
		return gen.WrapHEIF(t, "heic", rng, lvl)
	case "avif":
		return gen.WrapHEIF(t, "avif", rng, lvl)
	case "cr2":
		// Canon CR2: a TIFF file whose first directory starts at 16, with "CR" 2.0 and the RAW directory offset in between
		out := append([]byte{}, t...)
		copy(out[8:16], "CR\x02\x00\x00\x00\x00\x00")
		for len(out) < it.C.Ifd0At+32 {
			out = append(out, 0xEE)
		}
		return append(out, make([]byte, 16*lvl)...)
	}
	// bare TIFF file: the header search needs 32 bytes (C12's domain); trailing image data
	out := append([]byte{}, t...)
	for len(out) < it.C.Ifd0At+32 {
		out = append(out, 0xEE)
	}
	if lvl > 0 {
		out = append(out, make([]byte, 16*lvl)...)
	}
	return out
}

type contOp struct {
	item int
	bo   string
	ce   contEntry
}

func runContainers(r *core.Run, prop string) {
	rng := rand.New(rand.NewSource(r.Seed))
	if prop == "C06" {
		r.Rule = "every terminal state of the Exif specification (hand-off variant jpeg: payload length exact) is one logical record + forward layout; the SAME TIFF bytes are embedded in TIFF, JPEG APP1, PNG eXIf, CR3 CMT1 (and split over CMT1/CMT2/CMT4), HEIF (heic brand) and AVIF with three levels of surrounding content; every decode entry point of each container must report the specified record, the results must be pairwise equal across containers, and the image type must be the container's"
	} else {
		r.Rule = "every terminal state of the Exif specification is concretised twice, little- and big-endian, from the same abstract layout and the same value binding (all embedded classes: BYTE, ASCII 1-3, SHORT, LONG; out-of-line classes); in every container and entry point the two decodes must be identical (and equal the specified record)"
	}
	cfgs := []string{"Exif.cont.cfg", "Exif.time.cfg"}
	if r.Tier == "thorough" {
		cfgs = []string{"Exif.contT.cfg", "Exif.time.cfg", "Exif.bulkq.cfg"}
	}
	all, ok := exifCorpus(r, cfgs, rng)
	if !ok {
		return
	}
	var items []exifItem
	for _, it := range all {
		if it.C.Variant == "jpeg" || (it.C.Variant == "tiff" && it.C.Bulk > 0) {
			items = append(items, it)
		}
	}
	types, ok := libImageTypes(r)
	if !ok {
		return
	}
	var ops []core.Op
	var info []contOp
	for i := range items {
		it := &items[i]
		for _, bo := range []string{"LE", "BE"} {
			for _, ce := range contEntries {
				if ce.Cont == "cr3split" && it.C.Bulk > 0 {
					continue
				}
				if ce.Cont == "cr2" && it.C.Ifd0At != 16 {
					continue
				}
				ce.Type = types[contType[ce.Cont]]
				data := wrapContainer(ce.Cont, it, bo, rng, i%3)
				ops = append(ops, core.Op{ID: len(ops), Kind: "exif", Data: data, Cut: -1, Args: exifArgs(ce.Entry, bo, it.C.Ifd0At, it.C.Len)})
				info = append(info, contOp{i, bo, ce})
			}
		}
	}
	obs, err := core.RunOps(ops, core.WorkerOpts{})
	if err != nil {
		r.Machinery("worker: %v", err)
		return
	}
	// group observations per (item) -> per (container/entry) -> per byte order
	type cell struct {
		f  map[string]interface{}
		op int
	}
	rows := map[int]map[string]map[string]cell{}
	for i := range obs {
		if obs[i].Skipped {
			continue // not executed: the run had already met many calls that do not return
		}
		o, op, inf := &obs[i], &ops[i], info[i]
		it := &items[inf.item]
		tag := inf.ce.Cont + "/" + inf.ce.Entry
		if o.Bad() {
			r.Violate("container:"+tag+":"+o.BadKind()+"@"+o.Site, fmt.Sprintf("%s decoding a well-formed payload in %s: %s%s%s", o.BadKind(), inf.ce.Cont, o.Panic, o.Crash, o.Stall), replayOf(op, o, describeExifCase(it)))
			continue
		}
		r.Cases++
		if o.Err != "" {
			r.Violate("container:"+tag+":error-on-wellformed", fmt.Sprintf("%s(%s %s payload): error %s", inf.ce.Entry, inf.ce.Cont, inf.bo, o.Err), replayOf(op, o, describeExifCase(it)))
			continue
		}
		var got exifObsR
		json.Unmarshal(o.R, &got)
		if rows[inf.item] == nil {
			rows[inf.item] = map[string]map[string]cell{}
		}
		if rows[inf.item][tag] == nil {
			rows[inf.item][tag] = map[string]cell{}
		}
		rows[inf.item][tag][inf.bo] = cell{got.F, i}
		if prop == "C06" {
			// the container's image type, and the specified record
			if t, _ := got.F["ImageType"].(float64); t != inf.ce.Type {
				r.Violate("container:"+tag+":image-type", fmt.Sprintf("%s(%s): ImageType %v, the container is %s (%v)", inf.ce.Entry, inf.ce.Cont, got.F["ImageType"], contType[inf.ce.Cont], inf.ce.Type), replayOf(op, o, describeExifCase(it)))
			}
			wrong := diffFlat(got.F, it.Exp, it.Skip)
			if len(wrong) > 0 && len(diffFlat(got.F, zeroExp, map[string]bool{"ImageType": true})) == 0 {
				wrong = nil // reported once below as "nothing decoded"
			}
			for _, f := range wrong {
				r.Violate("container:"+tag+":field:"+f+":"+inf.bo, fmt.Sprintf("%s(%s, %s): field %s = %v, encoded value %v", inf.ce.Entry, inf.ce.Cont, inf.bo, f, got.F[f], it.Exp[f]), replayOf(op, o, describeExifCase(it)))
			}
		}
		if i%9000 == 0 {
			r.Sample(map[string]interface{}{"container": inf.ce.Cont, "entry": inf.ce.Entry, "order": inf.bo, "case": it.C})
		}
	}
	pairs := 0
	idx := make([]int, 0, len(rows))
	for k := range rows {
		idx = append(idx, k)
	}
	sort.Ints(idx)
	for _, k := range idx {
		it := &items[k]
		row := rows[k]
		if prop == "C07" {
			for tag, byBO := range row {
				le, okL := byBO["LE"]
				be, okB := byBO["BE"]
				if !okL || !okB {
					continue
				}
				pairs++
				for _, f := range sameFlat(le.f, be.f, map[string]bool{}) {
					r.Violate("byteorder:"+tag+":field:"+f+":"+fieldClass(it.C, it.Bind, f), fmt.Sprintf("%s: field %s decodes to %v from the little-endian and to %v from the big-endian encoding of the same record", tag, f, le.f[f], be.f[f]),
						map[string]interface{}{"ops": []core.Op{ops[le.op], ops[be.op]}, "observed": []core.Obs{obs[le.op], obs[be.op]}, "case": describeExifCase(it)})
				}
				for _, c := range []cell{le, be} {
					for _, f := range diffFlat(c.f, it.Exp, it.Skip) {
						r.Violate("byteorder:"+tag+":wrong:"+info[c.op].bo+":field:"+f+":"+fieldClass(it.C, it.Bind, f), fmt.Sprintf("%s (%s): field %s = %v, encoded value %v", tag, info[c.op].bo, f, c.f[f], it.Exp[f]), replayOf(&ops[c.op], &obs[c.op], describeExifCase(it)))
					}
				}
			}
			continue
		}
		// C06: pairwise equality across containers, per byte order (reference: bare TIFF through DecodeTiff)
		for _, bo := range []string{"LE", "BE"} {
			ref, ok := row["tiff/DecodeTiff"][bo]
			if !ok {
				continue
			}
			for tag, byBO := range row {
				c, ok := byBO[bo]
				if !ok || tag == "tiff/DecodeTiff" {
					continue
				}
				pairs++
				ign := map[string]bool{"ImageType": true}
				for k := range it.Skip { // fields the record leaves undetermined (see expectedExif)
					ign[k] = true
				}
				diff := sameFlat(ref.f, c.f, ign)
				if len(diff) > 0 && len(diffFlat(c.f, zeroExp, map[string]bool{"ImageType": true})) == 0 {
					r.Violate("container:"+tag+":nothing-decoded", fmt.Sprintf("%s (%s): no field at all is reported although the bare TIFF with the same payload reports %v", tag, bo, diff),
						map[string]interface{}{"ops": []core.Op{ops[ref.op], ops[c.op]}, "observed": []core.Obs{obs[ref.op], obs[c.op]}, "case": describeExifCase(it)})
					continue
				}
				for _, f := range diff {
					r.Violate("container:"+tag+":differs-from-tiff:field:"+f, fmt.Sprintf("%s (%s): field %s = %v, the bare TIFF with the same payload gives %v", tag, bo, f, c.f[f], ref.f[f]),
						map[string]interface{}{"ops": []core.Op{ops[ref.op], ops[c.op]}, "observed": []core.Obs{obs[ref.op], obs[c.op]}, "case": describeExifCase(it)})
				}
			}
		}
	}
	r.Extra["pairs_compared"] = pairs
	r.Extra["containers"] = []string{"TIFF", "JPEG APP1", "PNG eXIf", "CR3 CMT1", "CR3 CMT1+CMT2+CMT4 (split)", "HEIF heic (signature search)", "AVIF (iinf/iloc/mdat item)"}
	r.Assumptions = append(r.Assumptions,
		"surrounding container content holds no TIFF signature in front of the Exif payload (HEIF is located by signature search, C12)",
		"forward layouts, values in range (as C03)")
}

var zeroExp, _ = expectedExif(map[string]interface{}{})

// libImageTypes asks the real library for the numeric values of the image types (no copy of the enum in the harness).
func libImageTypes(r *core.Run) (map[string]float64, bool) {
	obs, err := core.RunOps([]core.Op{{ID: 0, Kind: "itypes", Cut: -1}}, core.WorkerOpts{Shards: 1})
	if err != nil || len(obs) != 1 || obs[0].Bad() {
		r.Machinery("cannot query image types: %v", err)
		return nil, false
	}
	m := map[string]float64{}
	if e := json.Unmarshal(obs[0].R, &m); e != nil || len(m) == 0 {
		r.Machinery("cannot query image types: %v", e)
		return nil, false
	}
	return m, true
}
