package props

import (
	"encoding/hex"
	"encoding/json"
	"fmt"
	"math/rand"
	"path/filepath"
	"strings"
	"time"

	"verif/core"
)

func init() { Register("C16", runC16) }

type codecRec struct {
	Part  string   `json:"part"`
	Lo    int      `json:"lo"`
	N     int      `json:"n"`
	Hint  int      `json:"hint"`
	Texts []string `json:"texts"`
	S     string   `json:"s"`
	Form  string   `json:"form"`
	Mut   string   `json:"mut"`
	Valid int      `json:"valid"`
}

// uuidText renders a UUID in one of the documented text forms and applies a malformation class.
func uuidText(u []byte, form, mut string, rng *rand.Rand) string {
	h := hex.EncodeToString(u)
	canon := h[:8] + "-" + h[8:12] + "-" + h[12:16] + "-" + h[16:20] + "-" + h[20:]
	plain := canon
	if strings.HasSuffix(form, "hash") || form == "hashlike" {
		plain = h
	}
	body := func(p string) string {
		switch {
		case strings.HasPrefix(form, "braced"):
			return "{" + p + "}"
		case strings.HasPrefix(form, "urn"):
			return "urn:uuid:" + p
		}
		return p
	}
	s := body(plain)
	switch mut {
	case "upper":
		if strings.HasPrefix(form, "urn") {
			return "urn:uuid:" + strings.ToUpper(plain)
		}
		return strings.ToUpper(s)
	case "dropchar":
		i := rng.Intn(len(s))
		return s[:i] + s[i+1:]
	case "extrachar":
		i := rng.Intn(len(s) + 1)
		return s[:i] + "0" + s[i:]
	case "badhex":
		b := []byte(plain)
		for {
			i := rng.Intn(len(b))
			if b[i] != '-' {
				b[i] = "gzGZ -_"[rng.Intn(7)]
				break
			}
		}
		return body(string(b))
	case "dashmoved":
		if plain == h {
			return body(h[:7] + "-" + h[8:])
		}
		b := []byte(plain)
		b[8], b[9] = b[9], b[8]
		return body(string(b))
	case "prefixtypo":
		if strings.HasPrefix(form, "urn") {
			return "urn:uuiD:" + plain
		}
		if strings.HasPrefix(form, "braced") {
			return "[" + plain + "}"
		}
		return "x" + plain[1:]
	case "bracemissing":
		if strings.HasPrefix(form, "braced") {
			return "{" + plain + "x"
		}
		return plain + "}"
	case "empty":
		return ""
	}
	return s
}

func runC16(r *core.Run) {
	rng := rand.New(rand.NewSource(r.Seed))
	r.Rule = "TLC checks the Codec specification: ExposureBias Pack/Unpack round trip and sign rule over all 2^16 encodings, MessagePack shortest-format lengths <= size hint over all 16-bit values, and enumerates (a) the specified text of every ExposureBias value, (b) every string of length 0..MaxLen over the 17-character parser alphabet, (c) UUID text forms x malformation classes. The real Marshal*/Unmarshal*/Msgsize/ParseString/encoding-json are run on all of it: text equal to the specified text, Unmarshal(Marshal(v)) = v, Marshal(Unmarshal(Marshal(v))) = Marshal(v), encoded length = shortest MessagePack format <= Msgsize(), every decoder returns (no panic) on every enumerated string; fixed-point k/100 values for the float-backed types; structural codecs on symbolic distinct bytes and seeded values"
	maxLen := "3"
	if r.Tier == "thorough" {
		maxLen = "4"
	}
	t, err := core.RunTLC(core.TLCOpts{Module: "Codec", Cfg: "Codec.cfg", Workers: 1, Timeout: 30 * time.Minute, Consts: map[string]string{"MaxLen": maxLen}})
	defer t.Cleanup()
	if err != nil || !t.OK {
		r.Machinery("TLC run on Codec failed: %v %s", err, tail(t))
		return
	}
	r.AddTLC("Codec", t)
	var ops []core.Op
	var strs []string
	type uuidCase struct {
		rec  codecRec
		u    []byte
		text string
	}
	var ucases []uuidCase
	flushStrs := func() {
		if len(strs) == 0 {
			return
		}
		a, _ := json.Marshal(map[string]interface{}{"part": "str", "strs": strs})
		ops = append(ops, core.Op{ID: len(ops), Kind: "codec", Cut: -1, Args: a})
		strs = nil
	}
	nrec := 0
	_, err = core.ReadEmitted(filepath.Join(t.Dir, "emit.ndjson"), func(raw json.RawMessage) error {
		var c codecRec
		if e := json.Unmarshal(raw, &c); e != nil {
			return e
		}
		nrec++
		switch c.Part {
		case "bias", "msgp":
			ops = append(ops, core.Op{ID: len(ops), Kind: "codec", Cut: -1, Args: raw})
		case "str":
			strs = append(strs, c.S)
			// the same characters embedded in longer, valid-looking text
			if len(c.S) > 0 && len(strs)%7 == 0 {
				strs = append(strs, "+1"+c.S+"3", c.S+"mm", "urn:uuid:"+c.S, "{"+c.S+"}", "\""+c.S+"\"")
			}
			if len(strs) >= 400 {
				flushStrs()
			}
		case "uuid":
			for k := 0; k < 6; k++ {
				u := make([]byte, 16)
				rng.Read(u)
				ucases = append(ucases, uuidCase{c, u, uuidText(u, c.Form, c.Mut, rng)})
			}
		}
		return nil
	})
	// numbers on the boundaries of the integer widths a parser may narrow to, in every textual position
	nums := []string{"0", "1", "9", "10", "255", "256", "65535", "65536", "65537", "131072", "196608", "2147483647", "2147483648", "4294967295", "4294967296",
		"4294967297", "9223372036854775807", "9223372036854775808", "18446744073709551615", "18446744073709551616", "00000000000000000001"}
	for _, a := range nums {
		strs = append(strs, a, "-"+a, "+"+a, a+"mm", a+".", "."+a, "f/"+a, a+"/", "/"+a, "1/"+a+"s")
		for _, b := range nums {
			strs = append(strs, a+"/"+b, a+"."+b, "-"+a+"/"+b, "+"+a+"/"+b, a+"/"+b+"mm")
			if len(strs) >= 400 {
				flushStrs()
			}
		}
	}
	flushStrs()
	if err != nil || nrec == 0 {
		r.Machinery("reading emitted codec records: %v (n=%d)", err, nrec)
		return
	}
	for lo := 0; lo < 65536; lo += 4096 {
		a, _ := json.Marshal(map[string]interface{}{"part": "fixed", "lo": lo, "n": 4096})
		ops = append(ops, core.Op{ID: len(ops), Kind: "codec", Cut: -1, Args: a})
	}
	for k := 0; k < 8; k++ {
		a, _ := json.Marshal(map[string]interface{}{"part": "struct", "lo": int(r.Seed)*100000 + k*2500, "n": 2500})
		ops = append(ops, core.Op{ID: len(ops), Kind: "codec", Cut: -1, Args: a})
	}
	ncodec := len(ops)
	for _, uc := range ucases {
		a, _ := json.Marshal(map[string]string{"text": uc.text})
		ops = append(ops, core.Op{ID: len(ops), Kind: "uuidtext", Cut: -1, Args: a})
	}
	obs, err := core.RunOps(ops, core.WorkerOpts{Shards: 16})
	if err != nil {
		r.Machinery("worker: %v", err)
		return
	}
	total := 0
	for i := 0; i < ncodec; i++ {
		o, op := &obs[i], &ops[i]
		var a struct {
			Part string `json:"part"`
		}
		json.Unmarshal(op.Args, &a)
		if o.Bad() {
			r.Violate("codec:"+a.Part+":"+o.BadKind()+"@"+o.Site, fmt.Sprintf("codec run (%s) %s: %s%s", a.Part, o.BadKind(), o.Panic, o.Crash), replayOf(op, o, nil))
			continue
		}
		var res struct {
			N   int      `json:"n"`
			Bad []string `json:"bad"`
		}
		json.Unmarshal(o.R, &res)
		total += res.N
		r.Cases++
		for _, b := range res.Bad {
			key := "codec:" + a.Part + ":" + strings.SplitN(b, "(", 2)[0]
			if a.Part == "str" {
				key = "codec:decoder-panic:" + strings.SplitN(b, "(", 2)[0]
			}
			r.Violate(key, b, replayOf(op, nil, nil))
		}
		if i%40 == 0 {
			r.Sample(map[string]interface{}{"part": a.Part, "values_or_calls": res.N})
		}
	}
	for k, uc := range ucases {
		o, op := &obs[ncodec+k], &ops[ncodec+k]
		r.Cases++
		total++
		desc := map[string]interface{}{"form": uc.rec.Form, "malformation": uc.rec.Mut, "text": uc.text}
		if o.Bad() {
			r.Violate("codec:uuid:"+o.BadKind()+"@"+o.Site, fmt.Sprintf("UUID.UnmarshalText(%q) %s: %s", uc.text, o.BadKind(), o.Panic), replayOf(op, o, desc))
			continue
		}
		var res struct {
			Hex       string `json:"hex"`
			Canonical string `json:"canonical"`
		}
		json.Unmarshal(o.R, &res)
		if uc.rec.Valid == 1 {
			if o.Err != "" || res.Hex != hex.EncodeToString(uc.u) {
				r.Violate("codec:uuid:"+uc.rec.Form+":"+uc.rec.Mut, fmt.Sprintf("UUID.UnmarshalText(%q) (documented form %s) = %s, error %q; the text denotes %x", uc.text, uc.rec.Form, res.Hex, o.Err, uc.u), replayOf(op, o, desc))
			}
		} else if o.Err == "" && uc.rec.Mut != "dashmoved" {
			// a malformed text must not silently decode to a UUID (hex-digit substitutions that stay hex are not generated)
			r.Violate("codec:uuid:accepts-malformed:"+uc.rec.Mut, fmt.Sprintf("UUID.UnmarshalText(%q) (malformation %s of form %s) returns no error (value %s)", uc.text, uc.rec.Mut, uc.rec.Form, res.Hex), replayOf(op, o, desc))
		}
	}
	r.Extra["values_and_calls"] = total
	r.Extra["records_emitted"] = nrec
	r.Assumptions = append(r.Assumptions,
		"not decided by the specification (TLC has no IEEE-754): text forms of arbitrary float32 bit patterns, NaN/Inf/denormals; float-backed types are checked at every k/100 fixed-point value for k < 65536 and by bit-exact MessagePack round trips of seeded bit patterns",
		"PHash Encode/Decode are given buffers of the required length (they have no error result)",
		"decoder totality: every string of length <= MaxLen (3 quick / 4 thorough) over the 17-character alphabet the parsers branch on, plus embeddings in longer text, as text AND as MessagePack/JSON input")
}
