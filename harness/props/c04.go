package props

import (
	"bytes"
	"encoding/binary"
	"encoding/json"
	"fmt"
	"math/rand"
	"os"
	"path/filepath"
	"sort"
	"strings"
	"time"

	"verif/core"
	"verif/gen"
)

func init() {
	Register("C04", runC04)
	Register("C05", runC05)
}

// poolTarget is one concrete call of the catalogue, tagged with its abstract input class
// (cells of pooled state it needs: 0 none .. 3 all) as used by spec/Pools.tla.
type poolTarget struct {
	Name string
	Cls  int
	Op   core.Op
}

func hashOp(fn string, d map[string]interface{}) core.Op {
	a, _ := json.Marshal(map[string]interface{}{"fn": fn, "img": d})
	return core.Op{Kind: "hash", Cut: -1, Args: a}
}

func img(kind string, w, h int, content string, seed int64, extra ...int) map[string]interface{} {
	m := map[string]interface{}{"kind": kind, "w": w, "h": h, "content": content, "seed": seed, "ratio": 444}
	if len(extra) >= 3 {
		m["ox"], m["oy"], m["pad"] = extra[0], extra[1], extra[2]
	}
	if len(extra) >= 4 {
		m["ratio"] = extra[3]
	}
	return m
}

// poolCatalogue builds the concrete targets: metadata decodes over payloads with few / many pending tags, zones,
// truncations, every container; perceptual hashes of accepted and of rejected images.
func poolCatalogue(r *core.Run, rng *rand.Rand) ([]poolTarget, bool) {
	var ts []poolTarget
	add := func(name string, cls int, op core.Op) { ts = append(ts, poolTarget{name, cls, op}) }
	exifCall := func(entry string, data []byte, cut int) core.Op {
		return core.Op{Kind: "callhold", Data: data, Cut: cut, Fault: "EOF", Args: exifArgs(entry, "LE", 8, len(data))}
	}
	time3, ok := exifCorpus(r, []string{"Exif.time.cfg"}, rng)
	if !ok {
		return nil, false
	}
	bulk, ok := exifCorpus(r, []string{"Exif.bulkq.cfg"}, rng)
	if !ok {
		return nil, false
	}
	small, ok := exifCorpus(r, []string{"Exif.cont.cfg"}, rng)
	if !ok {
		return nil, false
	}
	pickN := func(items []exifItem, n int, want func(*exifItem) bool) []*exifItem {
		var out []*exifItem
		for _, i := range rng.Perm(len(items)) {
			if want(&items[i]) {
				out = append(out, &items[i])
				if len(out) == n {
					break
				}
			}
		}
		return out
	}
	hasZone := func(it *exifItem) bool {
		for _, e := range it.C.Pick {
			if e.Cls == "zone" {
				return true
			}
		}
		return false
	}
	for k, it := range pickN(time3, 6, func(it *exifItem) bool { return hasZone(it) && len(it.C.Pick) == 3 && it.C.Variant == "tiff" }) {
		bo := []string{"LE", "BE"}[k%2]
		add(fmt.Sprintf("zone-record#%d/tiff/Decode", k), 2, exifCall("Decode", wrapContainer("tiff", it, bo, rng, 0), -1))
		add(fmt.Sprintf("zone-record#%d/tiff/Parse", k), 2, exifCall("Parse", wrapContainer("tiff", it, bo, rng, 0), -1))
		add(fmt.Sprintf("zone-record#%d/jpeg/DecodeJPEG", k), 2, exifCall("DecodeJPEG", wrapContainer("jpeg", it, bo, rng, 1), -1))
	}
	for k, it := range pickN(bulk, 4, func(it *exifItem) bool { return it.C.Variant == "tiff" }) {
		add(fmt.Sprintf("pending-%d#%d/tiff/Decode", it.C.Bulk, k), 3, exifCall("Decode", wrapContainer("tiff", it, "LE", rng, 0), -1))
		add(fmt.Sprintf("pending-%d#%d/tiff/Parse", it.C.Bulk, k), 3, exifCall("Parse", wrapContainer("tiff", it, "BE", rng, 0), -1))
	}
	for k, it := range pickN(small, 10, func(it *exifItem) bool { return true }) {
		cls := 1
		if len(it.C.Lay) == 0 {
			cls = 0 // only embedded values: nothing pending; the directory may end exactly at EOF
		}
		cont := []string{"tiff", "jpeg", "png", "cr3", "heif"}[k%5]
		entry := map[string]string{"tiff": "DecodeTiff", "jpeg": "Decode", "png": "DecodePng", "cr3": "DecodeCR3", "heif": "Decode"}[cont]
		d := wrapContainer(cont, it, []string{"LE", "BE"}[k%2], rng, k%3)
		add(fmt.Sprintf("record#%d/%s/%s", k, cont, entry), cls, exifCall(entry, d, -1))
		if len(it.C.Offs) > 0 { // the stream ends INSIDE an out-of-line value, on the paths with and without a bufio reader
			t := it.Tiff["LE"]
			first := it.C.Offs[0]
			n := 0
			for c := first + 1; c < len(t) && n < 10; c += 1 + (len(t)-first)/10 {
				add(fmt.Sprintf("record#%d/value-cut@%d/Parse", k, c), cls, exifCall("Parse", t, c))
				p := gen.WrapPNG(t, rng, 0)
				if at := bytes.Index(p, t[:8]); at > 0 {
					add(fmt.Sprintf("record#%d/value-cut@%d/DecodePng", k, c), cls, exifCall("DecodePng", p, at+c))
				}
				n++
			}
		}
		if cont == "tiff" { // exact-length file (no trailing bytes) and truncated files
			add(fmt.Sprintf("record#%d/tiff-exact/Parse", k), cls, exifCall("Parse", it.Tiff["LE"], -1))
			add(fmt.Sprintf("record#%d/tiff-cut/Decode", k), cls, exifCall("Decode", d, len(d)-3))
			add(fmt.Sprintf("record#%d/tiff-cut/Parse", k), cls, exifCall("Parse", d, 8+2+5))
		}
	}
	// text values fetched from behind the directory (ImageDescription, Software, Artist), each LONGER than anything the same
	// call has read before (so that what lies behind a short read in the scratch buffer is left over from EARLIER calls):
	// the stream ends inside each of them, on the paths with and without a bufio reader
	{
		le := binary.LittleEndian
		t := []byte("II*\x00\x08\x00\x00\x00\x03\x00")
		vals := 8 + 2 + 36 + 4
		for k, id := range []uint16{0x010e, 0x0131, 0x013b} {
			e := make([]byte, 12)
			le.PutUint16(e, id)
			le.PutUint16(e[2:], 2)
			le.PutUint32(e[4:], 200)
			le.PutUint32(e[8:], uint32(vals+200*k))
			t = append(t, e...)
		}
		t = append(t, 0, 0, 0, 0)
		for k := 0; k < 3; k++ {
			t = append(t, bytes.Repeat([]byte{byte('a' + k)}, 199)...)
			t = append(t, 0)
		}
		for k := 0; k < 3; k++ {
			for _, c := range []int{vals + 200*k, vals + 200*k + 5, vals + 200*k + 150} {
				add(fmt.Sprintf("text-value-cut@%d/Parse", c), 1, exifCall("Parse", t, c))
				add(fmt.Sprintf("text-value-cut@%d/Decode", c), 1, exifCall("Decode", t, c))
				p := gen.WrapPNG(t, rng, 0)
				if at := bytes.Index(p, t[:8]); at > 0 {
					add(fmt.Sprintf("text-value-cut@%d/DecodePng", c), 1, exifCall("DecodePng", p, at+c))
				}
			}
		}
	}
	// a date cut after the minutes / after the seconds' first digit: values shorter than the positions a parser reads
	for k, txt := range []string{"2021:03:04 05:06:", "2021:03:04 05:06:0", "2021:03:04 05:0"} {
		b := []byte("II*\x00\x08\x00\x00\x00\x01\x00\x32\x01\x02\x00")
		b = append(b, byte(len(txt)), 0, 0, 0, 26, 0, 0, 0, 0, 0, 0, 0)
		b = append(b, txt...)
		for len(b) < 48 {
			b = append(b, 0)
		}
		add(fmt.Sprintf("short-date#%d/Parse", k), 1, exifCall("Parse", b, -1))
		add(fmt.Sprintf("short-date#%d/Decode", k), 1, exifCall("Decode", b, -1))
	}
	// two spellings of the same zone offset: the reported zone must be the one written in THIS file
	// (incl. spellings the lenient offset parser maps onto the same offset: a blank for a digit)
	for k, z := range []string{"+00:00", "-00:00", "+05:30", "+05:30", "+ 5:30", "+5 :30", "- 5:30", "-05:30", "+0 :00"} {
		b := []byte("II*\x00\x08\x00\x00\x00\x02\x00\x32\x01\x02\x00\x14\x00\x00\x00\x26\x00\x00\x00\x69\x87\x04\x00\x01\x00\x00\x00\x3a\x00\x00\x00\x00\x00\x00\x00")
		b = append(b, "2020:01:02 03:04:05\x00"...)
		b = append(b, 0x01, 0x00, 0x10, 0x90, 0x02, 0x00, 0x07, 0x00, 0x00, 0x00, 0x4c, 0x00, 0x00, 0x00, 0, 0, 0, 0)
		b = append(b, z...)
		b = append(b, 0)
		for len(b) < 120 {
			b = append(b, 0)
		}
		add(fmt.Sprintf("zone-spelling#%d(%s)/Parse", k, z), 1, exifCall("Parse", b, -1))
		add(fmt.Sprintf("zone-spelling#%d(%s)/Decode", k, z), 1, exifCall("Decode", b, -1))
	}
	// scans that END IN AN ERROR (no further marker, truncated segment, truncated Exif payload) next to scans that succeed:
	// what a failed scan leaves behind must not reach the next one
	{
		tl := gen.BuildFullTIFF(rand.New(rand.NewSource(77)), "LE")
		good := gen.WrapJPEG(tl, rng, 1)
		nomark := append([]byte{0xFF, 0xD8}, bytes.Repeat([]byte{0x11}, 300)...)
		for k, v := range []struct {
			name string
			data []byte
			cut  int
		}{{"no-marker", nomark, -1}, {"cut-in-segment", good, 30}, {"cut-in-exif", good, 200}, {"cut-in-dqt", good, len(good) - 140}, {"whole", good, -1}} {
			add(fmt.Sprintf("jpeg-scan#%d(%s)/DecodeJPEG", k, v.name), 1, exifCall("DecodeJPEG", v.data, v.cut))
			add(fmt.Sprintf("jpeg-scan#%d(%s)/Decode", k, v.name), 1, exifCall("Decode", v.data, v.cut))
			add(fmt.Sprintf("jpeg-scan#%d(%s)/ScanJPEG-raw", k, v.name), 1, core.Op{Kind: "call", Data: v.data, Cut: v.cut, Fault: "EOF", Args: callArgsJSON("ScanJPEG/raw")})
		}
	}
	// preview images of several sizes: the returned bytes are held and looked at again after every later call
	for k, n := range []int{300, 700, 2048, 2049, 5000, 70000} {
		tl := gen.BuildFullTIFF(rand.New(rand.NewSource(int64(k))), "LE")
		add(fmt.Sprintf("PreviewCR3/preview-%d", n), 2, core.Op{Kind: "prevhold", Data: cr3WithPreview(tl[:300], n, false, rng), Cut: -1})
	}
	for _, s := range repoSamples(64 * 1024) {
		if s.Kind == "jpeg" || s.Kind == "tiff" || s.Kind == "heif" {
			add("sample:"+s.Name+"/Decode", 2, exifCall("Decode", s.Data, -1))
		}
		if s.Kind == "jpeg" {
			add("sample:"+s.Name+"/ScanJPEG-own-reader", 2, core.Op{Kind: "call", Data: s.Data, Cut: -1, Args: callArgsJSON("ScanJPEG/own")})
		}
	}
	// perceptual hashes: accepted sizes overwrite the whole pixel buffer (class 3), rejected ones must not touch it (class 0)
	for _, fn := range []string{"NewPHash64", "NewPHash64Alt"} {
		add(fn+"/rgba64-smooth", 3, hashOp(fn, img("RGBA", 64, 64, "smooth", 11)))
		add(fn+"/gray64-noise", 3, hashOp(fn, img("Gray", 64, 64, "noise", 12)))
		add(fn+"/ycbcr64-ramp", 3, hashOp(fn, img("YCbCr", 64, 64, "ramp", 13)))
		add(fn+"/rgba32x32", 0, hashOp(fn, img("RGBA", 32, 32, "noise", 14)))
		add(fn+"/rgba64x32", 0, hashOp(fn, img("RGBA", 64, 32, "noise", 15)))
		add(fn+"/gray128", 0, hashOp(fn, img("Gray", 128, 128, "smooth", 16)))
		add(fn+"/nil", 0, hashOp(fn, img("nil", 0, 0, "", 0)))
		// fully / half transparent pixels in both alpha-carrying kinds
		add(fn+"/rgba64-holes", 3, hashOp(fn, img("RGBA", 64, 64, "holes", 51)))
		add(fn+"/nrgba64-holes", 3, hashOp(fn, img("NRGBA", 64, 64, "holes", 52)))
		// rectangles off the diagonal whose width (or height) is the required one
		add(fn+"/rgba64x74@10,0", 0, hashOp(fn, img("RGBA", 64, 74, "noise", 17, 10, 0, 0)))
		add(fn+"/gray74x64@0,10", 0, hashOp(fn, img("Gray", 74, 64, "noise", 18, 0, 10, 0)))
		add(fn+"/rgba64x54@0,10", 0, hashOp(fn, img("RGBA", 64, 54, "noise", 19, 0, 10, 1)))
	}
	// the other hashing entry points: BlurHash of 64x64 images (its three conversion paths), average hash of 8x8 images
	for k, kind := range []string{"RGBA", "YCbCr", "Gray", "NRGBA"} {
		add("EncodeBlurHashFast/"+kind+"64-smooth", 3, hashOp("EncodeBlurHashFast", img(kind, 64, 64, "smooth", int64(31+k))))
		add("EncodeBlurHashFast/"+kind+"64-noise", 3, hashOp("EncodeBlurHashFast", img(kind, 64, 64, "noise", int64(35+k))))
		add("NewAHash/"+kind+"8-noise", 3, hashOp("NewAHash", img(kind, 8, 8, "noise", int64(41+k))))
	}
	for _, fn := range []string{"NewPHash256", "NewPHash256Alt"} {
		add(fn+"/rgba256-smooth", 3, hashOp(fn, img("RGBA", 256, 256, "smooth", 21)))
		add(fn+"/ycbcr256-noise", 3, hashOp(fn, img("YCbCr", 256, 256, "noise", 22)))
		add(fn+"/rgba64", 0, hashOp(fn, img("RGBA", 64, 64, "noise", 23)))
		add(fn+"/rgba256-holes", 3, hashOp(fn, img("RGBA", 256, 256, "holes", 53)))
		add(fn+"/nrgba256-holes", 3, hashOp(fn, img("NRGBA", 256, 256, "holes", 54)))
		add(fn+"/gray256x255", 0, hashOp(fn, img("Gray", 256, 255, "noise", 24)))
	}
	return ts, true
}

type poolHist struct {
	Hist [][]struct {
		Cls  int `json:"cls"`
		Zone int `json:"zone"`
	} `json:"hist"`
}

func loadHistories(r *core.Run, cfg string, workers int) ([]poolHist, bool) {
	t, err := core.RunTLC(core.TLCOpts{Module: "Pools", Cfg: cfg, Workers: workers, Timeout: 30 * time.Minute})
	defer t.Cleanup()
	if err != nil || !t.OK {
		r.Machinery("TLC run on Pools (%s) failed: %v %s", cfg, err, tail(t))
		return nil, false
	}
	r.AddTLC("Pools/"+cfg, t)
	seen := map[string]bool{}
	var hs []poolHist
	_, err = core.ReadEmitted(filepath.Join(t.Dir, "emit.ndjson"), func(raw json.RawMessage) error {
		if seen[string(raw)] {
			return nil
		}
		seen[string(raw)] = true
		var h poolHist
		if e := json.Unmarshal(raw, &h); e != nil {
			return e
		}
		hs = append(hs, h)
		return nil
	})
	if err != nil || len(hs) == 0 {
		r.Machinery("reading emitted histories: %v (n=%d)", err, len(hs))
		return nil, false
	}
	sort.Slice(hs, func(i, j int) bool {
		a, _ := json.Marshal(hs[i])
		b, _ := json.Marshal(hs[j])
		return string(a) < string(b)
	})
	return hs, true
}

func poolsDeviations(r *core.Run, devs map[string]string) bool {
	for cfg, inv := range devs {
		d, err := core.RunTLC(core.TLCOpts{Module: "Pools", Cfg: cfg, Workers: 2, Timeout: 10 * time.Minute})
		if err != nil || d.Violated != inv {
			r.Machinery("Pools deviation %s was expected to violate %s in the model, got %q: %v", cfg, inv, d.Violated, err)
			d.Cleanup()
			return false
		}
		r.Extra["deviation_"+cfg] = "violates " + d.Violated
		d.Cleanup()
	}
	return true
}

func sameObs(a, b *core.Obs) bool {
	return a.Err == b.Err && string(a.R) == string(b.R) && a.Panic == b.Panic
}

func runC04(r *core.Run) {
	rng := rand.New(rand.NewSource(r.Seed))
	r.Rule = "TLC checks the shared-state model Pools: with sync.Pool's contract (Get returns ANY pooled object or a new one) every history of CallsPer calls over the input classes satisfies Pure (no call reads a cell it did not write) and Exclusive; the `staleIdx` deviation violates Pure. Every emitted history is mapped onto a catalogue of concrete calls (metadata decodes with few / many pending tags, zones, truncations, containers, short date values; hashes of accepted and rejected images) and replayed in worker processes pinned to one P with GC off, interleaved with hook-driven poisoning of every pooled buffer (three patterns); each result must equal the result of the same call in a fresh process, and results held from earlier calls must re-serialise unchanged"
	if !poolsDeviations(r, map[string]string{"Pools.stale.cfg": "Pure"}) {
		return
	}
	hs, ok := loadHistories(r, "Pools.seq.cfg", 4)
	if !ok {
		return
	}
	targets, ok := poolCatalogue(r, rng)
	if !ok {
		return
	}
	byCls := map[int][]int{}
	for i, t := range targets {
		byCls[t.Cls] = append(byCls[t.Cls], i)
	}
	for c := 0; c <= 3; c++ {
		if len(byCls[c]) == 0 {
			r.Machinery("catalogue has no target of class %d", c)
			return
		}
	}
	// baseline: every target in its own fresh process
	var base []core.Op
	for i, t := range targets {
		op := t.Op
		op.ID = i
		base = append(base, op)
	}
	env := []string{"GOMAXPROCS=1", "GOGC=off"}
	bobs, err := core.RunOps(base, core.WorkerOpts{Fresh: true, Shards: 14, Env: env})
	if err != nil {
		r.Machinery("worker (fresh baselines): %v", err)
		return
	}
	for i := range bobs {
		if bobs[i].Crash != "" || bobs[i].Hang {
			r.Machinery("baseline of %s did not complete: %s", targets[i].Name, bobs[i].Crash)
			return
		}
	}
	// history streams
	poisons := []map[string]interface{}{
		{"off": 0, "fill": 0, "bits": uint64(0)},
		{"off": uint32(0xFFFFFFFF), "fill": 0xFF, "bits": uint64(0x7FF8000000000001)}, // NaN
		{"off": 40, "fill": 0x35, "bits": uint64(0x46293E5939A08CEA)},                 // 1e30
		{"off": 9, "fill": 0xA5, "bits": uint64(0xC6293E5939A08CEA)},                  // -1e30
	}
	var ops []core.Op
	var opT []int // target index, -1 = poison
	var opH []int
	nh := len(hs)
	if r.Tier != "thorough" && nh > 400 {
		nh = 400
	}
	for hi := 0; hi < nh; hi++ {
		h := hs[(hi*7919+int(r.Seed))%len(hs)]
		for si, st := range h.Hist[0] {
			cands := byCls[st.Cls]
			ti := cands[(hi*31+si*7+st.Zone*3+int(r.Seed))%len(cands)]
			if si == len(h.Hist[0])-1 && hi%3 != 0 { // poison right before the last call of two histories out of three
				a, _ := json.Marshal(poisons[hi%len(poisons)])
				ops = append(ops, core.Op{ID: len(ops), Kind: "poison", Cut: -1, Args: a})
				opT, opH = append(opT, -1), append(opH, hi)
			}
			op := targets[ti].Op
			op.ID = len(ops)
			ops = append(ops, op)
			opT, opH = append(opT, ti), append(opH, hi)
		}
	}
	// every target once behind every poison pattern (the rotation above reaches a given target only now and then):
	// a call that fills the pools, the poisoning, the target
	var fillers []int
	for i, t := range targets {
		if t.Cls == 3 && t.Op.Kind != "call" {
			fillers = append(fillers, i)
		}
	}
	for ti := range targets {
		if targets[ti].Op.Kind == "call" || len(fillers) == 0 { // caller-owned reader targets have their own sequences below
			continue
		}
		for pi := range poisons {
			if r.Tier != "thorough" && (ti+pi)%2 == 1 {
				continue
			}
			fi := fillers[(ti+pi)%len(fillers)]
			f := targets[fi].Op
			f.ID = len(ops)
			ops = append(ops, f)
			opT, opH = append(opT, fi), append(opH, -1)
			a, _ := json.Marshal(poisons[pi])
			ops = append(ops, core.Op{ID: len(ops), Kind: "poison", Cut: -1, Args: a})
			opT, opH = append(opT, -1), append(opH, -1)
			op := targets[ti].Op
			op.ID = len(ops)
			ops = append(ops, op)
			opT, opH = append(opT, ti), append(opH, -1)
		}
	}
	// a caller-owned bufio.Reader kept across ScanJPEG calls: re-target it, let other calls run, then scan
	var ownIdx []int
	for i, t := range targets {
		if t.Op.Kind == "call" && string(t.Op.Args) == string(callArgsJSON("ScanJPEG/own")) {
			ownIdx = append(ownIdx, i)
		}
	}
	nstream := len(ops) // what follows runs in ONE process (the sequences must not be split over workers)
	for hi := 0; hi < nh/4 && len(ownIdx) > 0; hi++ {
		ti := ownIdx[hi%len(ownIdx)]
		first := targets[ownIdx[(hi+1)%len(ownIdx)]].Op
		first.ID = len(ops)
		ops = append(ops, first) // the owner scans another file first (its reader has been handed to ScanJPEG once)
		opT, opH = append(opT, ownIdx[(hi+1)%len(ownIdx)]), append(opH, -1)
		prep := targets[ti].Op
		prep.Args = callArgsJSON("ScanJPEG/own-prepare")
		prep.ID = len(ops)
		ops = append(ops, prep)
		opT, opH = append(opT, -1), append(opH, -1)
		for k := 0; k < 1+hi%2; k++ { // other calls in between
			var cands []int
			for _, c := range byCls[2] { // anything but the owner itself (that would legitimately re-target its reader)
				if string(targets[c].Op.Args) != string(callArgsJSON("ScanJPEG/own")) {
					cands = append(cands, c)
				}
			}
			o2 := targets[cands[(hi*13+k*5)%len(cands)]]
			if k == 0 {
				for _, tj := range ownIdx { // among them a ScanJPEG over a plain reader
					o2 = targets[tj]
					o2.Op.Args = callArgsJSON("ScanJPEG/raw")
					break
				}
				o2.Op.ID = len(ops)
				ops = append(ops, o2.Op)
				opT, opH = append(opT, -1), append(opH, -1)
				continue
			}
			o2.Op.ID = len(ops)
			ops = append(ops, o2.Op)
			opT, opH = append(opT, -1), append(opH, -1)
		}
		scan := targets[ti].Op
		scan.Args = callArgsJSON("ScanJPEG/own-scan")
		scan.ID = len(ops)
		ops = append(ops, scan)
		opT, opH = append(opT, ti), append(opH, -1)
	}
	obs, err := core.RunOps(ops[:nstream], core.WorkerOpts{Shards: 8, Env: env})
	if err != nil {
		r.Machinery("worker (histories): %v", err)
		return
	}
	if f := os.Getenv("VERIF_DUMP_OWN"); f != "" {
		var buf []byte
		for i := nstream; i < len(ops); i++ {
			b, _ := json.Marshal(&ops[i])
			buf = append(append(buf, b...), '\n')
		}
		os.WriteFile(f, buf, 0o644)
	}
	obs2, err := core.RunOps(ops[nstream:], core.WorkerOpts{OneProc: true, Env: env})
	if err != nil {
		r.Machinery("worker (caller-owned reader sequences): %v", err)
		return
	}
	obs = append(obs, obs2...)
	for i := range obs {
		if obs[i].Skipped {
			continue // not executed: the run had already met many calls that do not return
		}
		if opT[i] < 0 {
			continue
		}
		o, b, t := &obs[i], &bobs[opT[i]], &targets[opT[i]]
		r.Cases++
		// the calls that precede this one in the same worker (bounded) are the replay
		lo := i - 8
		if lo < 0 {
			lo = 0
		}
		replay := map[string]interface{}{"ops": ops[lo : i+1], "observed": o, "fresh_process_result": b, "target": t.Name}
		if o.Crash != "" || o.Hang {
			r.Violate("history:crash:"+t.Name, fmt.Sprintf("%s: the worker died or hung after a history (%s)", t.Name, o.Crash), replay)
			continue
		}
		if !sameObs(o, b) {
			kind := "metadata"
			if t.Op.Kind == "hash" {
				kind = "hash"
			}
			what := firstDiff(o.R, b.R)
			if o.Err != b.Err || o.Panic != b.Panic {
				what = fmt.Sprintf("error %q/%q vs %q/%q", o.Err, o.Panic, b.Err, b.Panic)
			}
			r.Violate("history:"+kind+":"+t.Name, fmt.Sprintf("%s returns a different result after a history of earlier calls / pool contents than in a fresh process (%s)", t.Name, what), replay)
		}
		var res struct {
			Altered string `json:"altered"`
		}
		json.Unmarshal(o.R, &res)
		if res.Altered != "" {
			r.Violate("stable:"+t.Name, "a previously returned result was altered by a later call: "+res.Altered, replay)
		}
		if i%600 == 0 {
			if opH[i] >= 0 {
				r.Sample(map[string]interface{}{"history": hs[(opH[i]*7919+int(r.Seed))%len(hs)].Hist[0], "last_target": t.Name})
			}
		}
	}
	// ordered pairs inside a family of calls that may share a cache entry (zone spellings): each pair in its own
	// fresh process, so that the FIRST member really is the first the cache sees
	var famIdx []int
	for i, t := range targets {
		if strings.HasPrefix(t.Name, "zone-spelling") && strings.HasSuffix(t.Name, "/Parse") {
			famIdx = append(famIdx, i)
		}
	}
	var pops []core.Op
	var ppair [][2]int
	for _, a := range famIdx {
		for _, b := range famIdx {
			if a == b {
				continue
			}
			args, _ := json.Marshal(map[string]interface{}{"subs": []core.Op{targets[a].Op, targets[b].Op}})
			pops = append(pops, core.Op{ID: len(pops), Kind: "sequence", Cut: -1, Args: args})
			ppair = append(ppair, [2]int{a, b})
		}
	}
	pobs, err := core.RunOps(pops, core.WorkerOpts{Fresh: true, Env: env})
	if err != nil {
		r.Machinery("worker (family pairs): %v", err)
		return
	}
	for i := range pobs {
		o := &pobs[i]
		a, b := ppair[i][0], ppair[i][1]
		r.Cases++
		replay := map[string]interface{}{"ops": []core.Op{pops[i]}, "observed": o, "fresh_process_result": &bobs[b], "first": targets[a].Name, "second": targets[b].Name}
		if o.Bad() {
			r.Violate("history:crash:"+targets[b].Name, fmt.Sprintf("%s after %s: %s %s%s", targets[b].Name, targets[a].Name, o.BadKind(), o.Panic, o.Crash), replay)
			continue
		}
		var res []struct {
			R   json.RawMessage `json:"r"`
			Err string          `json:"err"`
			Bad string          `json:"bad"`
		}
		json.Unmarshal(o.R, &res)
		if len(res) != 2 {
			r.Machinery("family pair %d returned %d results", i, len(res))
			return
		}
		if string(res[1].R) != string(bobs[b].R) || res[1].Err != bobs[b].Err || res[1].Bad != bobs[b].Panic {
			r.Violate("history:metadata:"+targets[b].Name+":after-sibling", fmt.Sprintf("%s returns a different result right after %s than in a fresh process (%s)", targets[b].Name, targets[a].Name, firstDiff(res[1].R, bobs[b].R)), replay)
		}
	}
	// calls that OVERLAP in time are also "other calls of the same process": the hash functions (pooled pixel buffers held
	// across a long computation) run on 8 goroutines over different images; every result must be the fresh-process one
	var hashIdx []int
	for i, t := range targets {
		if t.Op.Kind == "hash" && t.Cls == 3 {
			hashIdx = append(hashIdx, i)
		}
	}
	if len(hashIdx) >= 4 {
		var cops []core.Op
		var csub [][]int
		byFn := map[string][]int{}
		var fns []string
		for _, ti := range hashIdx {
			var a struct {
				Fn string `json:"fn"`
			}
			json.Unmarshal(targets[ti].Op.Args, &a)
			if _, ok := byFn[a.Fn]; !ok {
				fns = append(fns, a.Fn)
			}
			byFn[a.Fn] = append(byFn[a.Fn], ti)
		}
		sort.Strings(fns)
		for b, fn := range fns { // one batch per function: 8 goroutines inside the same function, each on its own image
			var subs []core.Op
			var idx []int
			for g := 0; g < 8; g++ {
				ti := byFn[fn][g%len(byFn[fn])]
				subs = append(subs, targets[ti].Op)
				idx = append(idx, ti)
			}
			rounds := 400
			if strings.Contains(fn, "256") {
				rounds = 120
			}
			a, _ := json.Marshal(map[string]interface{}{"subs": subs, "rounds": rounds, "procs": []int{1, 4}[b%2]})
			cops = append(cops, core.Op{ID: len(cops), Kind: "concurrent", Cut: -1, Args: a, Heavy: true})
			csub = append(csub, idx)
		}
		cobs, err := core.RunOps(cops, core.WorkerOpts{Fresh: true, Shards: 4, Stall: 20 * time.Second})
		if err != nil {
			r.Machinery("worker (overlapping hash calls): %v", err)
			return
		}
		for bi := range cobs {
			o := &cobs[bi]
			if o.Bad() {
				r.Violate("history:overlap:"+o.BadKind(), fmt.Sprintf("overlapping hash calls: %s %s%s", o.BadKind(), o.Panic, firstLines(o.Crash, 3)), replayOf(&cops[bi], o, nil))
				continue
			}
			var res [][]struct {
				R   json.RawMessage `json:"r"`
				Err string          `json:"err"`
				Bad string          `json:"bad"`
			}
			json.Unmarshal(o.R, &res)
			for g := range res {
				b := &bobs[csub[bi][g]]
				for k := range res[g] {
					r.Cases++
					if x := res[g][k]; x.Err != b.Err || string(x.R) != string(b.R) || x.Bad != b.Panic {
						r.Violate("history:overlap:"+targets[csub[bi][g]].Name, fmt.Sprintf("%s returns a different result while other hash calls overlap with it than in a fresh process (%s)", targets[csub[bi][g]].Name, firstDiff(x.R, b.R)), replayOf(&cops[bi], o, nil))
						break
					}
				}
			}
		}
	}
	r.Extra["family_pairs"] = len(pops)
	r.Extra["histories_replayed"] = nh
	r.Extra["catalogue"] = len(targets)
	r.Exhaustive = false
	r.Assumptions = append(r.Assumptions,
		"workers run with GOMAXPROCS=1 and GC off so that sync.Pool hands back the object the previous call put; the poison hooks make stale reads observable independently of that",
		"histories of length CallsPer (3) over 4 abstract classes x 2 zones are exhaustive in the model; their concretisation rotates through a catalogue of ~90 concrete calls")
	_ = gen.Field{}
}

func runC05(r *core.Run) {
	rng := rand.New(rand.NewSource(r.Seed))
	r.Rule = "TLC checks Pools with 2 (3 in thorough) concurrent call processes at the granularity of the shared-state steps (Get, Write, RLock lookup, RUnlock, Lock, Insert, Read, Put): Exclusive, WriterExclusive, LockOK, Pure, no deadlock, every call returns, in every interleaving; the deviations `earlyPut` and `rlockWrite` violate them. The harness is built with the race detector: N in {4, 16, 64} goroutines run mixed calls of the catalogue (never-seen zone offsets in parallel, decodes through every container, ScanJPEG on raw readers next to Decode, hashes) at GOMAXPROCS in {1, 2, 4, 16}; the race detector must stay silent, nothing may crash or block, and every result must equal the sequential result of the same call in a fresh process"
	if !poolsDeviations(r, map[string]string{"Pools.early.cfg": "Exclusive", "Pools.rlock.cfg": "WriterExclusive"}) {
		return
	}
	cfg := "Pools.conc1.cfg"
	if r.Tier == "thorough" {
		cfg = "Pools.conc.cfg"
	}
	t, err := core.RunTLC(core.TLCOpts{Module: "Pools", Cfg: cfg, Workers: 8, Timeout: 40 * time.Minute})
	if err != nil || !t.OK {
		r.Machinery("TLC run on Pools (%s) failed: %v %s", cfg, err, tail(t))
		t.Cleanup()
		return
	}
	r.AddTLC("Pools/"+cfg, t)
	t.Cleanup()
	targets, ok := poolCatalogue(r, rng)
	if !ok {
		return
	}
	// many distinct zone offsets: every goroutine meets offsets no other call has cached yet
	zoneTiff := func(k int) []byte {
		h, m := k%14, []int{0, 15, 30, 45}[(k/14)%4]
		sign := "+-"[(k/56)%2 : (k/56)%2+1]
		if h == 0 && m == 0 {
			sign = "+"
		}
		txt := fmt.Sprintf("%s%02d:%02d", sign, h, m)
		b := []byte("II*\x00\x08\x00\x00\x00\x02\x00\x32\x01\x02\x00\x14\x00\x00\x00\x26\x00\x00\x00\x69\x87\x04\x00\x01\x00\x00\x00\x3a\x00\x00\x00\x00\x00\x00\x00")
		b = append(b, "2020:01:02 03:04:05\x00"...)
		b = append(b, 0x01, 0x00, 0x10, 0x90, 0x02, 0x00, 0x07, 0x00, 0x00, 0x00, 0x4c, 0x00, 0x00, 0x00, 0, 0, 0, 0)
		b = append(b, txt...)
		b = append(b, 0)
		for len(b) < 120 {
			b = append(b, 0)
		}
		return b
	}
	for k := 0; k < 112; k++ {
		d := zoneTiff(k + int(r.Seed)*7)
		targets = append(targets, poolTarget{fmt.Sprintf("zone-offset#%d/Parse", k), 1, core.Op{Kind: "call", Data: d, Cut: -1, Args: callArgsJSON("Parse")}})
	}
	// ScanJPEG on a raw reader next to the Decode entry points (they share pooled bufio readers)
	for _, s := range repoSamples(64 * 1024) {
		if s.Kind == "jpeg" {
			targets = append(targets, poolTarget{"sample:" + s.Name + "/ScanJPEG-raw", 2, core.Op{Kind: "call", Data: s.Data, Cut: -1, Args: callArgsJSON("ScanJPEG/raw")}})
			targets = append(targets, poolTarget{"sample:" + s.Name + "/DecodeJPEG", 2, core.Op{Kind: "call", Data: s.Data, Cut: -1, Args: callArgsJSON("DecodeJPEG")}})
		}
	}
	var indep []poolTarget
	for _, t := range targets {
		if string(t.Op.Args) == string(callArgsJSON("ScanJPEG/own")) {
			continue // one reader shared by all goroutines: not "independent readers"
		}
		if t.Op.Kind == "callhold" {
			t.Op.Kind = "exif" // no shared result store in concurrent runs
		}
		indep = append(indep, t)
	}
	targets = indep
	var base []core.Op
	for i, t := range targets {
		op := t.Op
		op.ID = i
		base = append(base, op)
	}
	bobs, err := core.RunOps(base, core.WorkerOpts{Fresh: true, Shards: 14})
	if err != nil {
		r.Machinery("worker (fresh baselines): %v", err)
		return
	}
	rounds := 3
	batches := 24
	if r.Tier == "thorough" {
		rounds, batches = 8, 120
	}
	// families: the targets that go through the same entry point / function (and so through the same shared state)
	famOf := func(t *poolTarget) string {
		if t.Op.Kind == "hash" {
			var a struct {
				Fn string `json:"fn"`
			}
			json.Unmarshal(t.Op.Args, &a)
			return "hash:" + a.Fn
		}
		var a struct {
			Entry string `json:"entry"`
		}
		json.Unmarshal(t.Op.Args, &a)
		return t.Op.Kind + ":" + a.Entry
	}
	fams := map[string][]int{}
	var famNames []string
	for i := range targets {
		f := famOf(&targets[i])
		if _, ok := fams[f]; !ok {
			famNames = append(famNames, f)
		}
		fams[f] = append(fams[f], i)
	}
	sort.Strings(famNames)
	var ops []core.Op
	var subsOf [][]int
	// homogeneous batches: 16 goroutines inside ONE family at a time, each on its own input
	for fi, f := range famNames {
		members := fams[f]
		var subs []core.Op
		var idx []int
		for g := 0; g < 16; g++ {
			ti := members[(g+fi+int(r.Seed))%len(members)]
			subs = append(subs, targets[ti].Op)
			idx = append(idx, ti)
		}
		a, _ := json.Marshal(map[string]interface{}{"subs": subs, "rounds": rounds, "procs": []int{4, 16}[fi%2]})
		ops = append(ops, core.Op{ID: len(ops), Kind: "concurrent", Cut: -1, Args: a, Heavy: true})
		subsOf = append(subsOf, idx)
	}
	r.Extra["families"] = famNames
	for b := 0; b < batches; b++ {
		n := []int{4, 16, 64}[b%3]
		procs := []int{1, 2, 4, 16}[(b/3)%4]
		var subs []core.Op
		var idx []int
		for g := 0; g < n; g++ {
			ti := rng.Intn(len(targets))
			if g%4 == 0 { // a quarter of the goroutines work on fresh zone offsets
				ti = len(targets) - 1 - rng.Intn(112+8)
				if ti < 0 {
					ti = 0
				}
			}
			subs = append(subs, targets[ti].Op)
			idx = append(idx, ti)
		}
		a, _ := json.Marshal(map[string]interface{}{"subs": subs, "rounds": rounds, "procs": procs})
		ops = append(ops, core.Op{ID: len(ops), Kind: "concurrent", Cut: -1, Args: a, Heavy: true})
		subsOf = append(subsOf, idx)
	}
	// each batch in its own fresh process: zone offsets are then really unseen, and a race report names its batch
	obs, err := core.RunOps(ops, core.WorkerOpts{Fresh: true, Shards: 4, Env: []string{"GORACE=halt_on_error=1 exitcode=66"}, Stall: 20 * time.Second})
	if err != nil {
		r.Machinery("worker (concurrent batches): %v", err)
		return
	}
	calls := 0
	for bi := range obs {
		o, op := &obs[bi], &ops[bi]
		desc := map[string]interface{}{"batch": bi, "goroutines": len(subsOf[bi])}
		switch {
		case o.Crash != "":
			key := "concurrent:crash"
			if containsStr(o.Crash, "DATA RACE") {
				key = "concurrent:data-race"
			} else if containsStr(o.Crash, "concurrent map") {
				key = "concurrent:map-race"
			}
			r.Violate(key, "concurrent calls on independent inputs: "+firstLines(o.Crash, 14), replayOf(op, o, desc))
			continue
		case o.Hang:
			r.Violate("concurrent:blocked", "concurrent calls did not finish (deadlock or livelock)", replayOf(op, o, desc))
			continue
		case o.Panic != "":
			r.Violate("concurrent:panic@"+o.Site, "concurrent calls: panic "+o.Panic, replayOf(op, o, desc))
			continue
		}
		var res [][]struct {
			R   json.RawMessage `json:"r"`
			Err string          `json:"err"`
			Bad string          `json:"bad"`
		}
		json.Unmarshal(o.R, &res)
		for g := range res {
			b := &bobs[subsOf[bi][g]]
			for k := range res[g] {
				calls++
				x := res[g][k]
				if x.Err != b.Err || string(x.R) != string(b.R) || x.Bad != b.Panic {
					what := firstDiff(x.R, b.R)
					if x.Err != b.Err || x.Bad != "" {
						what = fmt.Sprintf("error %q %q vs %q", x.Err, x.Bad, b.Err)
					}
					r.Violate("concurrent:result:"+targets[subsOf[bi][g]].Op.Kind, fmt.Sprintf("%s run concurrently returns a different result than alone in a fresh process (%s)", targets[subsOf[bi][g]].Name, what), replayOf(op, nil, desc))
				}
			}
		}
		r.Cases++
		if bi%8 == 0 {
			r.Sample(desc)
		}
	}
	r.Extra["concurrent_calls"] = calls
	r.Extra["batches"] = batches
	r.Exhaustive = false
	r.Assumptions = append(r.Assumptions,
		"interleavings are exhaustive in the model (2 processes x 1 call quick, 2 x 2 thorough); on the real code they are sampled by the scheduler under the race detector (no gated replay of individual interleavings)",
		"the race detector reports only races that occur in the runs made")
}

func containsStr(s, sub string) bool {
	return len(sub) > 0 && len(s) >= len(sub) && (stringIndex(s, sub) >= 0)
}

func stringIndex(s, sub string) int {
	for i := 0; i+len(sub) <= len(s); i++ {
		if s[i:i+len(sub)] == sub {
			return i
		}
	}
	return -1
}

func firstLines(s string, n int) string {
	out := ""
	for i, c := 0, 0; i < len(s) && c < n; i++ {
		out += string(s[i])
		if s[i] == '\n' {
			c++
		}
	}
	return out
}
