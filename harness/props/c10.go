package props

import (
	"bytes"
	"encoding/binary"
	"encoding/json"
	"fmt"
	"math/rand"
	"path/filepath"
	"time"

	"verif/core"
	"verif/gen"
)

func init() { Register("C10", runC10) }

type jpegCall struct {
	Kind    string `json:"kind"`
	I       int    `json:"i"`
	BO      string `json:"bo"`
	Ifd0    int    `json:"ifd0"`
	TiffOff int    `json:"tiffOff"`
	Len     int    `json:"len"`
	From    int    `json:"from"`
	Upto    int    `json:"upto"`
}

type jpegCase struct {
	Segs   []gen.JSeg `json:"segs"`
	XCons  []string   `json:"xcons"`
	Lead   string     `json:"lead"`
	Calls  []jpegCall `json:"calls"`
	Res    string     `json:"res"`
	Starts []int      `json:"starts"`
	Len    int        `json:"len"`
}

type jpegObsCall struct {
	Kind    string `json:"kind"`
	BO      int    `json:"bo"`
	Ifd0    uint32 `json:"ifd0"`
	TiffOff uint32 `json:"tiffOff"`
	Len     uint32 `json:"len"`
	Got     []byte `json:"got"`
	EOFAt   int    `json:"eofAt"`
	CbErr   string `json:"cbErr"`
}

type jpegObs struct {
	Calls    []jpegObsCall `json:"calls"`
	Consumed int64         `json:"consumed"`
}

// minimalTiff builds header + empty IFD (count 0, next 0) padded to n bytes: a payload the
// library's own Exif reader consumes completely (used for the "lib" callback variant).
func minimalTiff(bo string, ifd0, n int) []byte {
	b := make([]byte, n)
	if bo == "BE" {
		copy(b, "MM\x00\x2a")
		binary.BigEndian.PutUint32(b[4:], uint32(ifd0))
	} else {
		copy(b, "II\x2a\x00")
		binary.LittleEndian.PutUint32(b[4:], uint32(ifd0))
	}
	return b
}

// loadJpegCases runs the Jpeg specification and returns the emitted cases.
func loadJpegCases(r *core.Run, cfg string, withLive bool) ([]jpegCase, bool) {
	if withLive {
		live, err := core.RunTLC(core.TLCOpts{Module: "MC_Jpeg", Cfg: "Jpeg.live.cfg", Workers: 4, Timeout: 10 * time.Minute})
		if err != nil || !live.OK {
			r.Machinery("TLC liveness run on Jpeg failed: %v %s", err, tail(live))
			live.Cleanup()
			return nil, false
		}
		r.AddTLC("Jpeg.live", live)
		live.Cleanup()
	}
	t, err := core.RunTLC(core.TLCOpts{Module: "MC_Jpeg", Cfg: cfg, Workers: 4, Timeout: 40 * time.Minute})
	defer t.Cleanup()
	if err != nil || !t.OK {
		r.Machinery("TLC run on Jpeg failed (spec-level, not a verdict about the code): %v %s", err, tail(t))
		return nil, false
	}
	r.AddTLC("Jpeg", t)
	var cases []jpegCase
	_, err = core.ReadEmitted(filepath.Join(t.Dir, "emit.ndjson"), func(raw json.RawMessage) error {
		var c jpegCase
		if e := json.Unmarshal(raw, &c); e != nil {
			return e
		}
		cases = append(cases, c)
		return nil
	})
	if err != nil || len(cases) == 0 {
		r.Machinery("reading emitted Jpeg cases: %v (n=%d)", err, len(cases))
		return nil, false
	}
	return cases, true
}

// jpegBytes concretises one case. lib=true places library-consumable TIFF payloads in Exif segments.
func jpegBytes(c *jpegCase, rng *rand.Rand, lib bool) []byte {
	var embeds map[int][]byte
	if lib {
		embeds = map[int][]byte{}
		for i, s := range c.Segs {
			if s.Mk == "APP1" && s.Cls == "exif" {
				embeds[i] = minimalTiff(s.BO, s.Ifd0, s.Plen-6)
			}
		}
	}
	return gen.BuildJPEG(c.Lead, c.Segs, rng, embeds)
}

func runC10(r *core.Run) {
	rng := rand.New(rand.NewSource(r.Seed))
	r.Rule = "TLC enumerates all marker sequences up to MaxSegs segments over the segment shapes (one per dispatch class, payloads with 0xFF bytes / nested SOI..EOI / near-miss prefixes) x XMP-callback consumption {none,part,all} x lead {SOI, none, SOI EOI}; each terminal state is a case: expected callback arguments and byte ranges; distinct = distinct (sequence, consumption, lead)"
	cfg := "Jpeg.quick.cfg"
	if r.Tier == "thorough" {
		cfg = "Jpeg.thorough.cfg"
	}
	cases, ok := loadJpegCases(r, cfg, true)
	if !ok {
		return
	}
	var ops []core.Op
	var opCase []int
	var opLib []bool
	for i := range cases {
		c := &cases[i]
		var xc []string
		for j, s := range c.Segs {
			if s.Mk == "APP1" && s.Cls == "xmp" {
				xc = append(xc, c.XCons[j])
			}
		}
		for v := 0; v < 2; v++ {
			lib := v == 1
			if lib && (c.Lead != "soi" || i%3 != 0) {
				continue
			}
			mode := "pieces"
			if lib {
				mode = "lib"
			}
			args, _ := json.Marshal(map[string]interface{}{"xcons": xc, "exif": mode, "piece": 1 + rng.Intn(97)})
			ops = append(ops, core.Op{ID: len(ops), Kind: "jpegscan", Data: jpegBytes(c, rng, lib), Cut: -1, Args: args, Trace: true})
			opCase = append(opCase, i)
			opLib = append(opLib, lib)
		}
	}
	obs, err := core.RunOps(ops, core.WorkerOpts{})
	if err != nil {
		r.Machinery("worker: %v", err)
		return
	}
	var ts traceSet
	for i := range obs {
		if obs[i].Skipped {
			continue // not executed: the run had already met many calls that do not return
		}
		o, op, c := &obs[i], &ops[i], &cases[opCase[i]]
		if o.Bad() {
			r.Violate("jpeg.ScanJPEG:"+o.BadKind()+"@"+o.Site+":lead="+c.Lead, fmt.Sprintf("%s %s%s%s", o.BadKind(), o.Panic, o.Crash, o.Stall), replayOf(op, o, c))
			continue
		}
		r.Cases++
		checkJpegCase(r, c, op, o, opLib[i])
		if i%2500 == 0 {
			r.Sample(map[string]interface{}{"segs": c.Segs, "xcons": c.XCons, "lead": c.Lead, "expected_calls": c.Calls, "res": c.Res})
		}
		r.Events += ts.add(i, map[string]interface{}{"e": "start", "segs": c.Segs, "xcons": c.XCons, "lead": c.Lead}, o.Events, "jpeg")
	}
	validateTraces(r, "Trace_Jpeg", "Trace_Jpeg.cfg", "jpeg.ScanJPEG", ops, obs, ts.lines, ts.owner)
	if r.Tier == "thorough" {
		jpegBindingSelfTest(r, &ts)
	}
	r.Assumptions = append(r.Assumptions,
		"well-formed marker streams only (no fill bytes, no junk between segments): what the property quantifies over",
		"the Exif callback consumes exactly its declared length (the property's proviso), by seeded piece sizes or through the library's own DecodeJPEGIfd on an empty IFD",
		"sequences longer than MaxSegs (quick 3, thorough 4) are not enumerated")
}

func checkJpegCase(r *core.Run, c *jpegCase, op *core.Op, o *core.Obs, lib bool) {
	ent := "jpeg.ScanJPEG:"
	var got jpegObs
	json.Unmarshal(o.R, &got)
	cls := "lead=" + c.Lead
	switch c.Res {
	case "nil":
		if o.Err != "" {
			r.Violate(ent+"error-on-wellformed", "well-formed stream: error "+o.Err, replayOf(op, o, c))
			return
		}
		if want := int64(c.Len - 64); got.Consumed != want {
			r.Violate(ent+"position-after-DQT", fmt.Sprintf("stream position after the call %d, expected %d (end of the DQT segment)", got.Consumed, want), replayOf(op, o, c))
		}
	case "nomarker":
		if !hasStr(o.ErrIs, "ErrNoJPEGMarker") {
			r.Violate(ent+"result:"+cls, fmt.Sprintf("stream without an image start: expected ErrNoJPEGMarker, got %q", o.Err), replayOf(op, o, c))
		}
	}
	if len(got.Calls) != len(c.Calls) {
		r.Violate(ent+"callback-count:"+cls, fmt.Sprintf("%d callback invocations, specification says %d", len(got.Calls), len(c.Calls)), replayOf(op, o, c))
		return
	}
	xi := 0
	for k := range c.Calls {
		w, g := &c.Calls[k], &got.Calls[k]
		if w.Kind != g.Kind {
			r.Violate(ent+"callback-kind", fmt.Sprintf("call %d is %s, specification says %s", k, g.Kind, w.Kind), replayOf(op, o, c))
			return
		}
		if w.Kind == "exif" {
			wbo := 1
			if w.BO == "BE" {
				wbo = 2
			}
			if g.BO != wbo {
				r.Violate(ent+"exif-header:byte-order", fmt.Sprintf("byte order %d want %s", g.BO, w.BO), replayOf(op, o, c))
			}
			if int(g.Ifd0) != w.Ifd0 {
				r.Violate(ent+"exif-header:first-ifd", fmt.Sprintf("first IFD offset %d want %d", g.Ifd0, w.Ifd0), replayOf(op, o, c))
			}
			if int(g.TiffOff) != w.TiffOff {
				r.Violate(ent+"exif-header:tiff-offset", fmt.Sprintf("absolute TIFF offset %d want %d (call %d of %d)", g.TiffOff, w.TiffOff, k+1, len(c.Calls)), replayOf(op, o, c))
			}
			if int(g.Len) != w.Len {
				r.Violate(ent+"exif-header:length", fmt.Sprintf("length %d want %d", g.Len, w.Len), replayOf(op, o, c))
			}
			if !lib && !bytes.Equal(g.Got, op.Data[w.From:w.Upto]) {
				r.Violate(ent+"exif-bytes", "bytes readable in the Exif callback differ from the segment payload", replayOf(op, o, c))
			}
			if g.CbErr != "" {
				r.Violate(ent+"exif-callback-error", "reading the declared length failed: "+g.CbErr, replayOf(op, o, c))
			}
		} else {
			mode := "all"
			for j, s := range c.Segs {
				if j+1 == w.I && s.Mk == "APP1" {
					mode = c.XCons[j]
				}
			}
			xi++
			var want []byte
			switch mode {
			case "part":
				want = op.Data[w.From : w.From+w.Len/2]
			case "all":
				want = op.Data[w.From:w.Upto]
			}
			if !bytes.Equal(g.Got, want) {
				r.Violate(ent+"xmp-bytes:"+mode, fmt.Sprintf("XMP callback read %d bytes that differ from the packet bytes (%d expected)", len(g.Got), len(want)), replayOf(op, o, c))
			}
			if mode == "all" && g.EOFAt != w.Len {
				r.Violate(ent+"xmp-limit", fmt.Sprintf("XMP reader ended after %d bytes, packet has %d", g.EOFAt, w.Len), replayOf(op, o, c))
			}
		}
	}
}

func jpegBindingSelfTest(r *core.Run, ts *traceSet) {
	// corrupt the offset of one marker event: the acceptor must reject exactly there
	idx := -1
	for i, l := range ts.lines {
		if i > 200 && (bytes.Contains(l, []byte(`"e":"exifcb>"`)) || bytes.Contains(l, []byte(`"e":"exifcb\u003e"`))) {
			idx = i
			break
		}
	}
	if idx < 0 {
		r.Machinery("jpeg binding self-test: no exifcb> event")
		return
	}
	n := idx + 50
	if n > len(ts.lines) {
		n = len(ts.lines)
	}
	cor := append([][]byte{}, ts.lines[:n]...)
	var e map[string]interface{}
	json.Unmarshal(cor[idx], &e)
	a := e["a"].([]interface{})
	a[2] = a[2].(float64) - 2
	cor[idx], _ = json.Marshal(e)
	tr, err := core.ValidateTrace("Trace_Jpeg", "Trace_Jpeg.cfg", cor, false, 5*time.Minute)
	if err == nil {
		tr.TLC.Cleanup()
	}
	if err != nil || tr.Accepted || tr.Matched != idx {
		r.Machinery("jpeg binding self-test failed: corrupted tiffOffset not rejected at the event (err=%v matched=%d idx=%d)", err, tr.Matched, idx)
		return
	}
	r.Extra["binding_selftest"] = "corrupted exifcb> tiffOffset rejected at the corrupted event"
}
