package props

import (
	"bytes"
	"encoding/json"
	"fmt"
	"math/rand"
	"path/filepath"
	"sort"
	"time"

	"verif/core"
	"verif/gen"
)

func init() { Register("C13", runC13) }

type xmpCase struct {
	Items []gen.XItem `json:"items"`
	Out   []struct {
		P string `json:"p"`
		V int    `json:"v"`
	} `json:"out"`
	Err int `json:"err"`
}

var xmpZero = map[string]interface{}{}

func loadXmpCases(r *core.Run, cfg string) ([]xmpCase, bool) {
	t, err := core.RunTLC(core.TLCOpts{Module: "MC_Xmp", Cfg: cfg, Workers: 4, Timeout: 30 * time.Minute})
	defer t.Cleanup()
	if err != nil || !t.OK {
		r.Machinery("TLC run on Xmp (%s) failed: %v %s", cfg, err, tail(t))
		return nil, false
	}
	r.AddTLC("Xmp/"+cfg, t)
	var cases []xmpCase
	_, err = core.ReadEmitted(filepath.Join(t.Dir, "emit.ndjson"), func(raw json.RawMessage) error {
		var c xmpCase
		if e := json.Unmarshal(raw, &c); e != nil {
			return e
		}
		cases = append(cases, c)
		return nil
	})
	if err != nil || len(cases) == 0 {
		r.Machinery("reading emitted Xmp cases: %v (n=%d)", err, len(cases))
		return nil, false
	}
	sort.SliceStable(cases, func(i, j int) bool {
		a, _ := json.Marshal(cases[i].Items)
		b, _ := json.Marshal(cases[j].Items)
		return string(a) < string(b)
	})
	return cases, true
}

func runC13(r *core.Run) {
	rng := rand.New(rand.NewSource(r.Seed))
	r.Rule = "TLC checks the XMP reader model Xmp (look-ahead windows growing in fixed steps up to the 1538-byte buffer; Exact / FormEq / GrowBound / Terminates; the `edge` deviation - quote on the last byte of a window - violates Exact) and enumerates packets: every supported text property x {attribute, element} x quote x white space x boundary value lengths, every fixed-type property in both forms, ordered pairs, one property at EVERY value length 1..1030 (1..1600 thorough) in both forms, and tokens beyond the guarantee (value or error, never a wrong value). Each packet is concretised with seeded values (plus array properties and junk prefixes) and parsed by xmp.ParseXmp; the reported record must equal the written one, and the attribute form must equal the element form"
	cfgs := []string{"Xmp.quick.cfg", "Xmp.pairs.cfg", "Xmp.sweep.cfg", "Xmp.long.cfg"}
	if r.Tier == "thorough" {
		cfgs = []string{"Xmp.quick.cfg", "Xmp.pairs.cfg", "Xmp.sweepT.cfg", "Xmp.long.cfg"}
	}
	// the model tells the deviation apart
	d, err := core.RunTLC(core.TLCOpts{Module: "MC_Xmp", Cfg: "Xmp.edge.cfg", Workers: 2, Timeout: 10 * time.Minute})
	if err != nil || d.Violated == "" {
		r.Machinery("Xmp (edge deviation) was expected to violate Exact in the model: %v %s", err, tail(d))
		d.Cleanup()
		return
	}
	r.Extra["deviation_edge"] = "violates " + d.Violated
	d.Cleanup()
	d2, err := core.RunTLC(core.TLCOpts{Module: "MC_Xmp", Cfg: "Xmp.hdrcut.cfg", Workers: 2, Timeout: 10 * time.Minute})
	if err != nil || d2.Violated == "" {
		r.Machinery("Xmp (hdrcut deviation) was expected to violate Exact in the model: %v %s", err, tail(d2))
		d2.Cleanup()
		return
	}
	r.Extra["deviation_hdrcut"] = "violates " + d2.Violated
	d2.Cleanup()
	var cases []xmpCase
	for _, cfg := range cfgs {
		cs, ok := loadXmpCases(r, cfg)
		if !ok {
			return
		}
		cases = append(cases, cs...)
	}
	var ops []core.Op
	var pk []gen.XMPPacket
	var opCase []int
	junks := []int{0, 1, 9, 700, 1537, 1538, 1539, 5000}
	for i := range cases {
		c := &cases[i]
		p := gen.BuildXMP(c.Items, rng, junks[i%len(junks)]*((i/3)%2), i%2 == 0)
		a, _ := json.Marshal(map[string]interface{}{"small": i%5 == 4})
		ops = append(ops, core.Op{ID: len(ops), Kind: "xmpparse", Data: p.Data, Cut: -1, Args: a})
		pk = append(pk, p)
		opCase = append(opCase, i)
	}
	obs, err := core.RunOps(ops, core.WorkerOpts{})
	if err != nil {
		r.Machinery("worker: %v", err)
		return
	}
	// attribute form vs element form of the same single text property and length
	type fkey struct {
		p string
		v int
	}
	byForm := map[fkey]map[string]int{}
	for i := range obs {
		if obs[i].Skipped {
			continue // not executed: the run had already met many calls that do not return
		}
		o, op, c, p := &obs[i], &ops[i], &cases[opCase[i]], &pk[i]
		desc := map[string]interface{}{"items": c.Items, "model_out": c.Out, "model_err": c.Err}
		if o.Bad() {
			r.Violate("xmp:"+o.BadKind()+"@"+o.Site, fmt.Sprintf("ParseXmp %s on a well-formed packet: %s%s", o.BadKind(), o.Panic, o.Crash), replayOf(op, o, desc))
			continue
		}
		r.Cases++
		var got map[string]interface{}
		json.Unmarshal(o.R, &got)
		if c.Err == 0 {
			if o.Err != "" {
				site := "?"
				if len(c.Items) > 0 {
					site = c.Items[0].Form
				}
				r.Violate("xmp:error-on-wellformed:"+site, fmt.Sprintf("well-formed packet within the guarantee (%s): error %s", describeItems(c.Items), o.Err), replayOf(op, o, desc))
				continue
			}
			for prop, want := range p.Expect {
				if !xmpEq(prop, got[prop], want) {
					form := "array"
					for _, it := range c.Items {
						if it.P == prop {
							form = it.Form
						}
					}
					r.Violate("xmp:value:"+prop+":"+form, fmt.Sprintf("%s (%s): reported %v, written %v", prop, describeItems(c.Items), trunc(got[prop]), trunc(want)), replayOf(op, o, desc))
				}
			}
			// nothing else is reported
			for prop, v := range got {
				if _, ok := p.Expect[prop]; !ok && !xmpIsZero(v) {
					r.Violate("xmp:spurious:"+prop, fmt.Sprintf("%s reported as %v although the packet does not carry it (%s)", prop, trunc(v), describeItems(c.Items)), replayOf(op, o, desc))
				}
			}
			if len(c.Items) == 1 && c.Items[0].V > 0 {
				k := fkey{c.Items[0].P, c.Items[0].V}
				if byForm[k] == nil {
					byForm[k] = map[string]int{}
				}
				byForm[k][c.Items[0].Form] = i
			}
		} else {
			// beyond the guarantee: the value or an error, never a wrong value
			for prop, want := range p.Expect {
				if g, ok := got[prop]; ok && !xmpIsZero(g) && !xmpEq(prop, g, want) {
					r.Violate("xmp:wrong-value-beyond-window:"+prop, fmt.Sprintf("%s: token longer than the guaranteed window reported as a WRONG value (%d bytes instead of %d)", prop, len(fmt.Sprint(g)), len(fmt.Sprint(want))), replayOf(op, o, desc))
				}
			}
		}
		if i%2500 == 0 {
			r.Sample(map[string]interface{}{"items": c.Items, "model_err": c.Err, "packet_bytes": len(p.Data)})
		}
	}
	pairs := 0
	for k, m := range byForm {
		a, okA := m["attr"]
		e, okE := m["elem"]
		if !okA || !okE {
			continue
		}
		pairs++
		var ga, ge map[string]interface{}
		json.Unmarshal(obs[a].R, &ga)
		json.Unmarshal(obs[e].R, &ge)
		la, le := len(fmt.Sprint(ga[k.p])), len(fmt.Sprint(ge[k.p]))
		if (la == k.v) != (le == k.v) {
			r.Violate("xmp:form-equivalence:"+k.p, fmt.Sprintf("%s with a %d-byte value: attribute form reports %d bytes, element form %d bytes", k.p, k.v, la, le),
				map[string]interface{}{"ops": []core.Op{ops[a], ops[e]}})
		}
	}
	r.Extra["form_pairs_compared"] = pairs
	runXmpRoot(r, rng, cases)
	r.Extra["packets"] = len(cases)
	r.Assumptions = append(r.Assumptions,
		"white space between tokens is SP / LF (and their runs); white space around '=' and before '>' is not generated (the reader's own unit tests define `<hello >` as an error)",
		"namespaces are identified by their conventional prefixes; values hold no markup characters (< > & quotes)",
		"GPS coordinates are written as decimal numbers (what the reader parses), not in the XMP `DDD,MM.mmk` form")
}

func describeItems(items []gen.XItem) string {
	s := ""
	for k, it := range items {
		if k > 0 {
			s += ", "
		}
		s += fmt.Sprintf("%s as %s/%s v=%d ws=%s", it.P, it.Form, it.Q, it.V, it.WS)
	}
	return s
}

func trunc(v interface{}) string {
	s := fmt.Sprint(v)
	if len(s) > 60 {
		return fmt.Sprintf("%s...(%d bytes)", s[:40], len(s))
	}
	return s
}

func xmpIsZero(v interface{}) bool {
	switch x := v.(type) {
	case string:
		return x == "" || x == "00000000000000000000000000000000"
	case float64:
		return x == 0
	case []interface{}:
		return len(x) == 0
	case nil:
		return true
	}
	return false
}

func xmpEq(prop string, got, want interface{}) bool {
	switch w := want.(type) {
	case float64:
		g, ok := got.(float64)
		if prop == "exif:GPSLatitude" || prop == "exif:GPSLongitude" {
			return ok && g == w // float64 fields: the written decimal parses to exactly one double
		}
		return ok && numEq("ExposureTime", g, w)
	case string:
		g, ok := got.(string)
		return ok && g == w
	case []string:
		g, ok := got.([]interface{})
		if !ok || len(g) != len(w) {
			return false
		}
		for i := range w {
			if g[i] != w[i] {
				return false
			}
		}
		return true
	}
	return false
}

type xmpRootCase struct {
	Runs []struct {
		N   int    `json:"n"`
		Sep string `json:"sep"`
	} `json:"runs"`
	Root   int `json:"root"`
	Slices int `json:"slices"`
	Fulls  int `json:"fulls"`
}

// xmpJunk concretises the runs in front of the root element: '<'-free stretches and the '<' kinds of XmpRoot.
func xmpJunk(c *xmpRootCase, fill string) []byte {
	var b []byte
	for _, run := range c.Runs {
		for i := 0; i < run.N; i++ {
			b = append(b, fill[i%len(fill)])
		}
		switch run.Sep {
		case "lt":
			b = append(b, "<a>"...)
		case "decoy":
			b = append(b, "<x:xmpmetb "...)
		case "pi":
			pi := `<?xpacket begin="" id="W5M0MpCehiHzreSzNTczkc9d"?>`
			for len(pi) < 54 {
				pi += "\n"
			}
			b = append(b, pi...)
		}
	}
	return b
}

// runXmpRoot: the root-search model XmpRoot (bytes before the root element are skipped) and its replay.
func runXmpRoot(r *core.Run, rng *rand.Rand, packets []xmpCase) {
	d, err := core.RunTLC(core.TLCOpts{Module: "XmpRoot", Cfg: "XmpRoot.fullfails.cfg", Workers: 2, Timeout: 10 * time.Minute})
	if err != nil || d.Violated == "" {
		r.Machinery("XmpRoot (fullfails deviation) was expected to violate NoErr in the model: %v %s", err, tail(d))
		d.Cleanup()
		return
	}
	r.Extra["deviation_fullfails"] = "violates " + d.Violated
	d.Cleanup()
	cfg := "XmpRoot.quick.cfg"
	if r.Tier == "thorough" {
		cfg = "XmpRoot.thorough.cfg"
	}
	t, err := core.RunTLC(core.TLCOpts{Module: "XmpRoot", Cfg: cfg, Workers: 4, Timeout: 20 * time.Minute})
	defer t.Cleanup()
	if err != nil || !t.OK {
		r.Machinery("TLC run on XmpRoot failed: %v %s", err, tail(t))
		return
	}
	r.AddTLC("XmpRoot", t)
	var cases []xmpRootCase
	if _, err = core.ReadEmitted(filepath.Join(t.Dir, "emit.ndjson"), func(raw json.RawMessage) error {
		var c xmpRootCase
		if e := json.Unmarshal(raw, &c); e != nil {
			return e
		}
		cases = append(cases, c)
		return nil
	}); err != nil || len(cases) == 0 {
		r.Machinery("reading emitted XmpRoot cases: %v (n=%d)", err, len(cases))
		return
	}
	sort.SliceStable(cases, func(i, j int) bool {
		a, _ := json.Marshal(cases[i])
		b, _ := json.Marshal(cases[j])
		return string(a) < string(b)
	})
	// a few short packets within the guarantee carry the junk
	var carriers []*xmpCase
	for i := range packets {
		c := &packets[i]
		if c.Err == 0 && len(c.Items) <= 2 && (len(c.Items) == 0 || c.Items[0].V <= 128) {
			carriers = append(carriers, c)
		}
	}
	if len(carriers) == 0 {
		r.Machinery("no carrier packet for the XmpRoot cases")
		return
	}
	fills := []string{" ", "\x00", "ab\n", "x>/=\"'"}
	var ops []core.Op
	var pk []gen.XMPPacket
	for i := range cases {
		c := carriers[rng.Intn(len(carriers))]
		p := gen.BuildXMP(c.Items, rng, 0, i%2 == 0)
		at := bytes.Index(p.Data, []byte("<x:xmpmeta"))
		if at < 0 {
			r.Machinery("generated packet has no root element")
			return
		}
		junk := xmpJunk(&cases[i], fills[i%len(fills)])
		if len(junk) != cases[i].Root {
			r.Machinery("XmpRoot case %d: junk is %d bytes, the model places the root at %d", i, len(junk), cases[i].Root)
			return
		}
		p.Data = append(junk, p.Data[at:]...)
		a, _ := json.Marshal(map[string]interface{}{"small": i%5 == 4})
		ops = append(ops, core.Op{ID: len(ops), Kind: "xmpparse", Data: p.Data, Cut: -1, Args: a})
		pk = append(pk, p)
	}
	obs, err := core.RunOps(ops, core.WorkerOpts{})
	if err != nil {
		r.Machinery("worker: %v", err)
		return
	}
	for i := range obs {
		if obs[i].Skipped {
			continue // not executed: the run had already met many calls that do not return
		}
		o, op, c, p := &obs[i], &ops[i], &cases[i], &pk[i]
		cls := "within-buffer"
		if c.Fulls > 0 {
			cls = "beyond-buffer"
		}
		desc := map[string]interface{}{"runs": c.Runs, "root_at": c.Root, "model_slices": c.Slices, "model_fulls": c.Fulls}
		if o.Bad() {
			r.Violate("xmp:root:"+o.BadKind()+"@"+o.Site, fmt.Sprintf("ParseXmp %s on a packet preceded by %d bytes: %s%s", o.BadKind(), c.Root, o.Panic, o.Crash), replayOf(op, o, desc))
			continue
		}
		r.Cases++
		if o.Err != "" {
			r.Violate("xmp:root:error:"+cls, fmt.Sprintf("packet preceded by %d bytes (%d '<' before the root, longest '<'-free stretch class %s): error %s", c.Root, len(c.Runs)-1, cls, o.Err), replayOf(op, o, desc))
			continue
		}
		var got map[string]interface{}
		json.Unmarshal(o.R, &got)
		for prop, want := range p.Expect {
			if !xmpEq(prop, got[prop], want) {
				r.Violate("xmp:root:value:"+cls, fmt.Sprintf("packet preceded by %d bytes: %s reported %v, written %v", c.Root, prop, trunc(got[prop]), trunc(want)), replayOf(op, o, desc))
				break
			}
		}
	}
	r.Extra["root_search_cases"] = len(cases)
}
