package props

import (
	"encoding/json"
	"fmt"
	"math/rand"
	"path/filepath"
	"strings"
	"time"

	"verif/core"
	"verif/gen"
)

// X01 is not one of the listed properties: it binds the system-level composition Decode.tla (entry points as
// compositions of the component readers) to the real entry points. Registered for ./check.sh X01, not in MANIFEST.
func init() { Register("X01", runX01) }

type decodeCase struct {
	Entry string   `json:"entry"`
	Kind  string   `json:"kind"`
	H     []string `json:"h"`
	Err   string   `json:"err"`
	RType string   `json:"rtype"`
}

// decodeKindBytes builds a file of the given kind of MC_Decode.
func decodeKindBytes(kind string, tiffLE, tiffBE []byte, rng *rand.Rand) []byte {
	pad := func(h string, n int) []byte { return append([]byte(h), make([]byte, n)...) }
	exifSeg := func(t []byte) gen.JSeg { return gen.JSeg{Mk: "APP1", Cls: "exif", Plen: 6 + len(t), BO: "LE", Ifd0: 8} }
	switch kind {
	case "jpeg0":
		return gen.BuildJPEG("soi", []gen.JSeg{{Mk: "APP0", Cls: "jfif", Plen: 14}, {Mk: "DQT", Cls: "opaque", Plen: 65}}, rng, nil)
	case "jpeg1":
		return gen.WrapJPEG(tiffLE, rng, 1)
	case "jpeg2":
		return gen.BuildJPEG("soi", []gen.JSeg{exifSeg(tiffLE), {Mk: "APP0", Cls: "jfif", Plen: 14}, exifSeg(tiffLE), {Mk: "DQT", Cls: "opaque", Plen: 65}}, rng,
			map[int][]byte{0: tiffLE, 2: tiffLE})
	case "jpegxe", "jpegex":
		x := gen.JSeg{Mk: "APP1", Cls: "xmp", Plen: 29 + 150}
		segs := []gen.JSeg{x, {Mk: "APP0", Cls: "jfif", Plen: 14}, exifSeg(tiffLE), {Mk: "DQT", Cls: "opaque", Plen: 65}}
		at := 2
		if kind == "jpegex" {
			segs = []gen.JSeg{exifSeg(tiffLE), {Mk: "APP0", Cls: "jfif", Plen: 14}, x, {Mk: "DQT", Cls: "opaque", Plen: 65}}
			at = 0
		}
		return gen.BuildJPEG("soi", segs, rng, map[int][]byte{at: tiffLE})
	case "tiff":
		return append(append([]byte{}, tiffLE...), make([]byte, 64)...)
	case "tiffBE":
		return append(append([]byte{}, tiffBE...), make([]byte, 64)...)
	case "cr2":
		// a CR2 file is a TIFF whose first directory starts at 16, with "CR\x02\x00" at 8
		t := gen.BuildFullTIFFAt(rand.New(rand.NewSource(7)), "LE", 16)
		copy(t[8:], "CR\x02\x00")
		return append(t, make([]byte, 64)...)
	case "rw2":
		return pad("IIU\x00\x18\x00\x00\x00\x88\xe7\x74\xd8", 300)
	case "cr3":
		return gen.WrapCR3(gen.CR3Parts{CMT1: tiffLE}, rng, 1)
	case "cr3split":
		return gen.WrapCR3(gen.CR3Parts{CMT1: tiffLE, CMT2: tiffLE, CMT4: tiffLE}, rng, 1)
	case "avif":
		return gen.WrapHEIF(tiffLE, "avif", rng, 1)
	case "heif":
		return gen.WrapHEIF(tiffLE, "heic", rng, 1)
	case "heif0":
		return gen.WrapHEIF(nil, "heic", rng, 1)
	case "png1":
		return gen.WrapPNG(tiffLE, rng, 1)
	case "png0":
		return pad("\x89PNG\r\n\x1a\n\x00\x00\x00\rIHDR\x00\x00\x00\x10\x00\x00\x00\x10\x08\x02\x00\x00\x00\x90\x91h6\x00\x00\x00\x00IEND\xaeB`\x82", 0)
	case "gif":
		return pad("GIF89a", 300)
	case "bmp":
		return pad("BM", 300)
	case "webp":
		return pad("RIFF\x00\x01\x00\x00WEBPVP8 ", 300)
	case "crw":
		return pad("II\x1a\x00\x00\x00HEAPCCDR", 300)
	case "psd":
		return pad("8BPS\x00\x01", 300)
	case "xmp":
		return pad("<x:xmpmeta xmlns:x=\"adobe:ns:meta/\"></x:xmpmeta>", 300)
	case "ppm":
		return pad("P6\n16 16\n255\n", 300)
	case "unknown":
		return pad("\x01\x02\x03\x04nothing known here....", 300)
	case "short":
		return []byte("\xff\xd8\xff\xe1\x00\x10Exif")
	}
	return nil
}

// projectDecode maps the hook events of one call onto the component-level tokens of Decode.tla.
func projectDecode(events []json.RawMessage) []string {
	var h []string
	jOpen := false
	for _, raw := range events {
		var e struct {
			P string  `json:"p"`
			E string  `json:"e"`
			A []int64 `json:"a"`
		}
		json.Unmarshal(raw, &e)
		switch e.P + ":" + e.E {
		case "jpeg:scan":
			if !jOpen {
				jOpen = true
				h = append(h, "J(")
			}
		case "jpeg:ret":
			jOpen = false
			h = append(h, "J)")
		case "jpeg:exifcb>":
			h = append(h, "Jx>")
		case "jpeg:exifcb<":
			h = append(h, "Jx<")
		case "tiff:found":
			h = append(h, "Tf")
		case "tiff:noexif":
			h = append(h, "Tn")
		case "bmff:ret":
			h = append(h, "B)")
		case "bmff:cb>":
			h = append(h, fmt.Sprintf("Bx>%d", e.A[0]))
		case "bmff:cb<":
			h = append(h, fmt.Sprintf("Bx<%d", e.A[0]))
		case "exif:begin":
			h = append(h, fmt.Sprintf("E%d(", e.A[0]))
		case "exif:end":
			h = append(h, "E)")
		}
	}
	return h
}

var decodeTypeIndex = map[string]float64{"Unknown": 0, "JPEG": 1, "PNG": 2, "GIF": 3, "BMP": 4, "WebP": 5, "HEIF": 6, "TIFF": 8,
	"PanaRAW": 11, "CRW": 13, "CR3": 15, "CR2": 16, "PSD": 17, "XMP": 18, "AVIF": 19, "PPM": 20}

func runX01(r *core.Run) {
	rng := rand.New(rand.NewSource(r.Seed))
	r.Rule = "TLC checks the composition model Decode (every entry point x every input kind: sniff, route, component calls, IFD reader windows; ExifNested/ExifBalanced/OneFamily/QuietRefusal/TypeReported/Returns) and emits the component-level history of every call; each is replayed on the real entry point with all hooks recording, and the projection of the recorded events onto component-level tokens, the error class and the reported image type must equal the specified ones"
	t, err := core.RunTLC(core.TLCOpts{Module: "MC_Decode", Cfg: "Decode.cfg", Workers: 2, Timeout: 10 * time.Minute})
	defer t.Cleanup()
	if err != nil || !t.OK {
		r.Machinery("TLC run on Decode failed: %v %s", err, tail(t))
		return
	}
	r.AddTLC("Decode", t)
	var cases []decodeCase
	if _, err = core.ReadEmitted(filepath.Join(t.Dir, "emit.ndjson"), func(raw json.RawMessage) error {
		var c decodeCase
		if e := json.Unmarshal(raw, &c); e != nil {
			return e
		}
		cases = append(cases, c)
		return nil
	}); err != nil || len(cases) == 0 {
		r.Machinery("reading emitted Decode cases: %v (n=%d)", err, len(cases))
		return
	}
	reps := 3
	if r.Tier == "thorough" {
		reps = 20
	}
	var ops []core.Op
	var opCase []int
	for rep := 0; rep < reps; rep++ {
		tle := gen.BuildFullTIFFAt(rand.New(rand.NewSource(r.Seed+int64(rep))), "LE", 8+2*rep)
		tbe := gen.BuildFullTIFFAt(rand.New(rand.NewSource(r.Seed+int64(rep))), "BE", 8+2*rep)
		for i := range cases {
			c := &cases[i]
			data := decodeKindBytes(c.Kind, tle, tbe, rng)
			if data == nil {
				r.Machinery("no generator for kind %s", c.Kind)
				return
			}
			ops = append(ops, core.Op{ID: len(ops), Kind: "call", Data: data, Cut: -1, Args: callArgsJSON(c.Entry), Trace: true})
			opCase = append(opCase, i)
		}
	}
	obs, err := core.RunOps(ops, core.WorkerOpts{})
	if err != nil {
		r.Machinery("worker: %v", err)
		return
	}
	for i := range obs {
		if obs[i].Skipped {
			continue // not executed: the run had already met many calls that do not return
		}
		o, op, c := &obs[i], &ops[i], &cases[opCase[i]]
		desc := map[string]interface{}{"entry": c.Entry, "kind": c.Kind, "specified_history": c.H, "specified_error": c.Err, "specified_type": c.RType}
		if o.Bad() {
			r.Violate("decode:"+c.Entry+":"+o.BadKind()+"@"+o.Site, fmt.Sprintf("%s on a %s file: %s %s%s", c.Entry, c.Kind, o.BadKind(), o.Panic, o.Crash), replayOf(op, o, desc))
			continue
		}
		r.Cases++
		r.Events += len(o.Events)
		got := projectDecode(o.Events)
		cls := "none"
		if o.Err != "" {
			cls = "other"
			for _, s := range o.ErrIs {
				switch s {
				case "ErrImageTypeNotFound":
					cls = "notfound"
				case "ErrMetadataNotSupported":
					cls = "unsupported"
				case "ErrNoExif":
					cls = "noexif"
				}
			}
		}
		if strings.Join(got, " ") != strings.Join(c.H, " ") {
			r.Violate("decode:history:"+c.Entry+":"+c.Kind, fmt.Sprintf("%s on a %s file: component-level history [%s], specification says [%s]", c.Entry, c.Kind, strings.Join(got, " "), strings.Join(c.H, " ")), replayOf(op, o, desc))
			continue
		}
		if cls != c.Err {
			r.Violate("decode:error:"+c.Entry+":"+c.Kind, fmt.Sprintf("%s on a %s file: error class %s (%s), specification says %s", c.Entry, c.Kind, cls, o.Err, c.Err), replayOf(op, o, desc))
			continue
		}
		if c.Err == "none" && c.Entry != "PreviewCR3" {
			var res struct {
				F map[string]interface{} `json:"f"`
			}
			json.Unmarshal(o.R, &res)
			if it, _ := res.F["ImageType"].(float64); it != decodeTypeIndex[c.RType] {
				r.Violate("decode:type:"+c.Entry+":"+c.Kind, fmt.Sprintf("%s on a %s file: reported image type %v, specification says %s (%v)", c.Entry, c.Kind, res.F["ImageType"], c.RType, decodeTypeIndex[c.RType]), replayOf(op, o, desc))
			}
		}
	}
	r.Extra["entry_x_kind"] = len(cases)
}
