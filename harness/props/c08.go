package props

import (
	"encoding/json"
	"fmt"
	"math/rand"
	"path/filepath"
	"time"

	"verif/core"
)

func init() { Register("C08", runC08) }

type chunkPat struct {
	Pat     []string `json:"pat"`
	EOFData int      `json:"eofdata"`
	Res     string   `json:"res"`
}

const fullRead = 1 << 30

var classCode = map[string]int{"F": fullRead, "S": -1, "H": -2, "O": -3}

// schedule builds the chunk schedule that plays pattern p from Read call number t on; all other calls are full.
func schedule(p *chunkPat, t int) []int {
	var s []int
	if p.EOFData == 1 {
		s = append(s, 0)
	}
	for i := 0; i < t; i++ {
		s = append(s, fullRead)
	}
	for _, c := range p.Pat {
		s = append(s, classCode[c])
	}
	for i := 0; i < 3000; i++ {
		s = append(s, fullRead)
	}
	return s
}

func runC08(r *core.Run) {
	rng := rand.New(rand.NewSource(r.Seed))
	r.Rule = "TLC checks the reader/environment model Chunk: with the ReadFull design ChunkFree/NoPhantom hold for every delivery choice (classes full / short-by-one / half / one-byte per Read call, final bytes with or without EOF), with the single-Read deviation they fail; every run of the design is emitted as a delivery pattern. Each pattern is replayed at every Read-call position of the real read-call script of each entry point x input, plus global schedules, and the value and error compared with the run on a reader that always fills the buffer"
	maxCalls := "2"
	if r.Tier == "thorough" {
		maxCalls = "4"
	}
	// E3: the design has the property ...
	t, err := core.RunTLC(core.TLCOpts{Module: "MC_Chunk", Cfg: "Chunk.full.cfg", Workers: 4, Timeout: 10 * time.Minute, Consts: map[string]string{"MaxCalls": maxCalls}})
	defer t.Cleanup()
	if err != nil || !t.OK {
		r.Machinery("TLC run on Chunk (full) failed: %v %s", err, tail(t))
		return
	}
	r.AddTLC("Chunk.full", t)
	// ... and the model distinguishes the deviation the code is known for (non-vacuity of ChunkFree/NoPhantom)
	s, err := core.RunTLC(core.TLCOpts{Module: "MC_Chunk", Cfg: "Chunk.single.cfg", Workers: 2, Timeout: 10 * time.Minute})
	if err != nil || s.Violated == "" {
		r.Machinery("Chunk (single-Read deviation) was expected to violate ChunkFree/NoPhantom in the model: %v %s", err, tail(s))
		s.Cleanup()
		return
	}
	r.Extra["deviation_detected_in_model"] = "Mode=single violates " + s.Violated
	s.Cleanup()
	var pats []chunkPat
	_, err = core.ReadEmitted(filepath.Join(t.Dir, "emit.ndjson"), func(raw json.RawMessage) error {
		var p chunkPat
		if e := json.Unmarshal(raw, &p); e != nil {
			return e
		}
		allFull := true
		for _, c := range p.Pat {
			if c != "F" {
				allFull = false
			}
		}
		if !allFull || p.EOFData == 1 {
			pats = append(pats, p)
		}
		return nil
	})
	if err != nil || len(pats) == 0 {
		r.Machinery("reading emitted chunk patterns: %v (n=%d)", err, len(pats))
		return
	}
	per := 4
	maxPos := 24
	if r.Tier == "thorough" {
		per = 12
		maxPos = 64
	}
	inputs, ok := baseCorpus(r, rng, per, true)
	if !ok {
		return
	}
	// baseline: plain reader; records the read-call script
	type target struct {
		in    int
		entry string
		cut   int
	}
	var targets []target
	var base []core.Op
	for i, in := range inputs {
		for _, e := range entriesByKind[in.Kind] {
			cuts := []int{-1}
			if in.Gen && len(in.Data) > 40 { // truncated files are inputs too
				cuts = append(cuts, 20+rng.Intn(len(in.Data)-20), len(in.Data)-1-rng.Intn(12))
			}
			for _, c := range cuts {
				targets = append(targets, target{i, e, c})
				base = append(base, core.Op{ID: len(base), Kind: "call", Data: in.Data, Cut: c, Fault: "EOF", Args: callArgsJSON(e), Script: true})
			}
		}
	}
	bobs, err := core.RunOps(base, core.WorkerOpts{})
	if err != nil {
		r.Machinery("worker (baseline): %v", err)
		return
	}
	globals := [][]int{{1}, {1, 2, 3}, {7, 1}, {0, fullRead}, {0, 1}, {-2}, {-1}, {0, -1}, {4095}, {4097, 3}}
	var ops []core.Op
	var opT []int
	for ti, tg := range targets {
		b := &bobs[ti]
		if b.Bad() {
			continue // not this property's subject (C01/C02); the chunked runs of such inputs are skipped
		}
		add := func(ch []int) {
			ops = append(ops, core.Op{ID: len(ops), Kind: "call", Data: inputs[tg.in].Data, Cut: tg.cut, Fault: "EOF", Args: callArgsJSON(tg.entry), Chunks: ch})
			opT = append(opT, ti)
		}
		for _, g := range globals {
			add(g)
		}
		if !unbufferedEntries[tg.entry] {
			// buffered paths: bufio refills until it has what was asked; a few targeted positions suffice
			for pi := range pats {
				if pi%7 == ti%7 {
					add(schedule(&pats[pi], 0))
				}
			}
			continue
		}
		L := len(b.Script)
		if L > maxPos {
			L = maxPos
		}
		for pos := 0; pos < L; pos++ {
			for pi := range pats {
				add(schedule(&pats[pi], pos))
			}
		}
	}
	obs, err := core.RunOps(ops, core.WorkerOpts{})
	if err != nil {
		r.Machinery("worker: %v", err)
		return
	}
	for i := range obs {
		if obs[i].Skipped {
			continue // not executed: the run had already met many calls that do not return
		}
		o, op := &obs[i], &ops[i]
		tg := targets[opT[i]]
		b := &bobs[opT[i]]
		in := &inputs[tg.in]
		r.Cases++
		desc := map[string]interface{}{"input": in.Name, "entry": tg.entry, "cut": tg.cut, "chunks_head": headInts(op.Chunks, 12), "baseline": b}
		if o.Bad() {
			r.Violate("chunk:"+tg.entry+":"+o.BadKind()+"@"+o.Site, fmt.Sprintf("%s on %s: %s under a short-read schedule, returns normally on a full reader: %s%s%s", tg.entry, in.Kind, o.BadKind(), o.Panic, o.Crash, o.Stall), replayOf(op, o, desc))
			continue
		}
		if o.Err != b.Err {
			r.Violate("chunk:"+tg.entry+":error-differs:"+in.Kind, fmt.Sprintf("%s on %s: error %q under a short-read schedule, %q on a full reader", tg.entry, in.Name, o.Err, b.Err), replayOf(op, o, desc))
			continue
		}
		if string(o.R) != string(b.R) {
			r.Violate("chunk:"+tg.entry+":value-differs:"+in.Kind, fmt.Sprintf("%s on %s: result under a short-read schedule differs from the result on a full reader (%s)", tg.entry, in.Name, firstDiff(o.R, b.R)), replayOf(op, o, desc))
		}
		if i%20000 == 0 {
			r.Sample(map[string]interface{}{"input": in.Name, "entry": tg.entry, "cut": tg.cut, "chunks_head": headInts(op.Chunks, 8), "script_head": headInts(b.Script, 12)})
		}
	}
	r.Extra["inputs"] = len(inputs)
	r.Extra["targets"] = len(targets)
	r.Extra["patterns"] = len(pats)
	r.Exhaustive = false
	r.Assumptions = append(r.Assumptions,
		"schedules are legal per the io.Reader contract: positive read sizes, optional data-with-EOF on the final read",
		"patterns of up to MaxCalls consecutive non-full deliveries at every call position (first 24/64 calls) + global schedules; inputs are a seeded sample of the TLC-generated files in every container, their truncations, and the repository samples")
}

func headInts(s []int, n int) []int {
	if len(s) > n {
		return s[:n]
	}
	return s
}

func firstDiff(a, b json.RawMessage) string {
	var ma, mb map[string]interface{}
	if json.Unmarshal(a, &ma) != nil || json.Unmarshal(b, &mb) != nil {
		return "unparsable"
	}
	for k, va := range ma {
		ja, _ := json.Marshal(va)
		jb, _ := json.Marshal(mb[k])
		if string(ja) != string(jb) {
			if k == "f" {
				fa, _ := va.(map[string]interface{})
				fb, _ := mb[k].(map[string]interface{})
				for f, x := range fa {
					if fmt.Sprint(x) != fmt.Sprint(fb[f]) {
						return fmt.Sprintf("field %s: %v vs %v", f, x, fb[f])
					}
				}
			}
			sa, sb := string(ja), string(jb)
			if len(sa) > 80 {
				sa = sa[:80]
			}
			if len(sb) > 80 {
				sb = sb[:80]
			}
			return k + ": " + sa + " vs " + sb
		}
	}
	return "?"
}
