package props

import (
	"fmt"
	"math/rand"
	"strings"
	"time"

	"verif/core"
)

func init() { Register("C14", runC14) }

func runC14(r *core.Run) {
	rng := rand.New(rand.NewSource(r.Seed))
	cases, info, ok := buildFaultCases(r, rng, true)
	if !ok {
		return
	}
	r.Rule = "the Fault specification's NoBlowup invariant (nothing is allocated from a declared size/count the stream cannot hold; the `trusting` deviation violates it) + every size-like field (size, count, unit count, offset) of every generated container file rewritten with each LARGE value class (0xFFFE, 0xFFFF, 2^30, 2^31-1, 2^32-1, 4097, 1025, +1000, past EOF), the repository samples with seeded mutations, long-token XMP packets and random bytes; the Scale specification's AllocBound (deviations `perUnit`, `regrow` violate it) and every Scale case concretised up to 2 MiB per family; each call runs alone on one goroutine between two runtime.ReadMemStats: TotalAlloc delta <= 4 MiB + 16*len"
	ops := make([]core.Op, len(cases))
	for i, c := range cases {
		ops[i] = core.Op{ID: i, Kind: "alloc-call", Data: c.in.Data, Cut: c.cut, Fault: c.fault, Args: callArgsJSON(c.entry), NoRes: true}
	}
	obs, err := core.RunOps(ops, core.WorkerOpts{Stall: 15 * time.Second, Shards: 14, Env: []string{"GOGC=off", "GOMAXPROCS=1"}})
	if err != nil {
		r.Machinery("worker: %v", err)
		return
	}
	var maxAlloc uint64
	var worst string
	for i := range obs {
		if obs[i].Skipped {
			continue // not executed: the run had already met many calls that do not return
		}
		o, op, c := &obs[i], &ops[i], &cases[i]
		r.Cases++
		n := len(c.in.Data)
		if c.cut >= 0 && c.cut < n {
			n = c.cut
		}
		desc := map[string]interface{}{"input": c.in.Name, "entry": c.entry, "cut": c.cut, "malformation": c.what, "len": n}
		bound := uint64(4<<20 + 16*n)
		switch {
		case o.Alloc > bound:
			r.Violate("alloc:"+c.entry+":"+c.in.Kind, fmt.Sprintf("%s allocated %d bytes decoding %d bytes of input (bound 4MiB+16*len = %d) on: %s [%s]", c.entry, o.Alloc, n, bound, c.what, c.in.Name), replayOf(op, o, desc))
		case o.Crash != "" && (strings.Contains(o.Crash, "out of memory") || strings.Contains(o.Crash, "cannot allocate")):
			r.Violate("alloc-crash:"+c.entry+":"+c.in.Kind, fmt.Sprintf("%s died allocating memory on: %s [%s]", c.entry, c.what, c.in.Name), replayOf(op, o, desc))
		case o.Hang:
			r.Violate("alloc-hang:"+c.entry+":"+c.in.Kind, fmt.Sprintf("%s did not return within 15 s (allocation/zeroing of a declared size?) on: %s [%s]", c.entry, c.what, c.in.Name), replayOf(op, o, desc))
		}
		if o.Alloc > maxAlloc {
			maxAlloc, worst = o.Alloc, fmt.Sprintf("%s on %s (%s), %d input bytes", c.entry, c.in.Name, c.what, n)
		}
		if i%15000 == 0 {
			desc["alloc"] = o.Alloc
			r.Sample(desc)
		}
	}
	for k, v := range info {
		r.Extra[k] = v
	}
	r.Extra["max_alloc_bytes"] = maxAlloc
	r.Extra["max_alloc_case"] = worst
	r.Exhaustive = false
	r.Assumptions = append(r.Assumptions,
		"TotalAlloc is measured around the whole worker op (entry point + building the result record), single goroutine, GC off",
		"panics/hangs on these inputs belong to C01/C02 and are not judged here")
}
