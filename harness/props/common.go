package props

import (
	"encoding/json"
	"sort"

	"verif/core"
)

// Driver runs the check of one property.
type Driver func(r *core.Run)

var drivers = map[string]Driver{}

// Register adds a property driver.
func Register(id string, d Driver) { drivers[id] = d }

// Get returns the driver of a property.
func Get(id string) (Driver, bool) { d, ok := drivers[id]; return d, ok }

// IDs lists the registered properties.
func IDs() []string {
	var s []string
	for k := range drivers {
		s = append(s, k)
	}
	sort.Strings(s)
	return s
}

func tail(t *core.TLCResult) string {
	if t == nil {
		return ""
	}
	return t.Tail(25)
}

func hasStr(s []string, x string) bool {
	for _, v := range s {
		if v == x {
			return true
		}
	}
	return false
}

// replayOf builds the replay record of one op: everything needed to re-run it alone.
func replayOf(op *core.Op, o *core.Obs, abstract interface{}) map[string]interface{} {
	m := map[string]interface{}{"op": op, "observed": o}
	if abstract != nil {
		m["case"] = abstract
	}
	return m
}

func countStarts(owner []int) int {
	n := 0
	last := -1
	for _, o := range owner {
		if o != last {
			n++
			last = o
		}
	}
	return n
}

func rawLines(lines [][]byte, owner []int, oi int) []json.RawMessage {
	var out []json.RawMessage
	for i, l := range lines {
		if owner[i] == oi {
			out = append(out, json.RawMessage(l))
		}
	}
	return out
}
