package props

import (
	"bytes"
	"encoding/json"
	"fmt"
	"sort"
	"strings"
	"sync"
	"time"

	"verif/core"
)

// Driver runs the check of one property.
type Driver func(r *core.Run)

var drivers = map[string]Driver{}

// Register adds a property driver.
func Register(id string, d Driver) { drivers[id] = d }

// Get returns the driver of a property.
func Get(id string) (Driver, bool) { d, ok := drivers[id]; return d, ok }

// IDs lists the registered properties.
func IDs() []string {
	var s []string
	for k := range drivers {
		s = append(s, k)
	}
	sort.Strings(s)
	return s
}

func tail(t *core.TLCResult) string {
	if t == nil {
		return ""
	}
	return t.Tail(25)
}

func hasStr(s []string, x string) bool {
	for _, v := range s {
		if v == x {
			return true
		}
	}
	return false
}

// replayOf builds the replay record of one op: everything needed to re-run it alone.
func replayOf(op *core.Op, o *core.Obs, abstract interface{}) map[string]interface{} {
	m := map[string]interface{}{"op": op, "observed": o}
	if abstract != nil {
		m["case"] = abstract
	}
	return m
}

func countStarts(owner []int) int {
	n := 0
	last := -1
	for _, o := range owner {
		if o != last {
			n++
			last = o
		}
	}
	return n
}

func rawLines(lines [][]byte, owner []int, oi int) []json.RawMessage {
	var out []json.RawMessage
	for i, l := range lines {
		if owner[i] == oi {
			out = append(out, json.RawMessage(l))
		}
	}
	return out
}

// traceSet collects the concatenated trace of many runs (one "start" line per run).
type traceSet struct {
	lines [][]byte
	owner []int // op index per line
}

// add appends one run: its start record and the events of package pkg ("" = all).
func (t *traceSet) add(opIndex int, start interface{}, events []json.RawMessage, pkg string) int {
	st, _ := json.Marshal(start)
	t.lines = append(t.lines, st)
	t.owner = append(t.owner, opIndex)
	n := 0
	for _, e := range events {
		if pkg != "" {
			var h struct {
				P string `json:"p"`
			}
			json.Unmarshal(e, &h)
			if h.P != pkg {
				continue
			}
		}
		t.lines = append(t.lines, e)
		t.owner = append(t.owner, opIndex)
		n++
	}
	return n
}

// validateTraces runs a trace acceptor over the concatenated runs, in chunks of at most ~50k events
// validated by parallel TLC processes. A rejected run becomes a violation (with the run as replay)
// and is dropped so that the remaining runs of its chunk are still checked.
func validateTraces(r *core.Run, module, cfg, entry string, ops []core.Op, obs []core.Obs, lines [][]byte, owner []int) {
	if len(lines) == 0 {
		r.Machinery("no trace events recorded for %s (hooks missing?)", module)
		return
	}
	// chunks validated by parallel TLC processes: at most 50k events each, small enough to occupy 12 processes
	chunk := len(lines)/12 + 1
	if chunk < 4000 {
		chunk = 4000
	}
	if chunk > 50000 {
		chunk = 50000
	}
	type part struct{ lo, hi int }
	var parts []part
	for lo := 0; lo < len(lines); {
		hi := lo + chunk
		if hi >= len(lines) {
			hi = len(lines)
		} else {
			for hi < len(lines) && owner[hi] == owner[hi-1] { // do not split a run
				hi++
			}
		}
		parts = append(parts, part{lo, hi})
		lo = hi
	}
	var mu sync.Mutex
	var wg sync.WaitGroup
	sem := make(chan struct{}, 12)
	for _, p := range parts {
		wg.Add(1)
		sem <- struct{}{}
		go func(p part) {
			defer wg.Done()
			defer func() { <-sem }()
			validateChunk(r, &mu, module, cfg, entry, ops, obs, lines[p.lo:p.hi], owner[p.lo:p.hi])
		}(p)
	}
	wg.Wait()
}

func validateChunk(r *core.Run, mu *sync.Mutex, module, cfg, entry string, ops []core.Op, obs []core.Obs, lines [][]byte, owner []int) {
	for round := 0; round < 25 && len(lines) > 0; round++ {
		tr, err := core.ValidateTrace(module, cfg, lines, false, 20*time.Minute)
		mu.Lock()
		if err != nil {
			r.Machinery("trace validation %s: %v", module, err)
			mu.Unlock()
			tr.TLC.Cleanup()
			return
		}
		r.AddTLC(module, tr.TLC)
		tr.TLC.Cleanup()
		if tr.Accepted {
			r.Traces += countStarts(owner)
			mu.Unlock()
			return
		}
		idx := tr.Matched
		if idx >= len(lines) {
			idx = len(lines) - 1
		}
		if tr.InvViol != "" && idx > 0 {
			idx-- // the invariant fails in the state reached by the last matched event
		}
		oi := owner[idx]
		var evName struct {
			E string `json:"e"`
		}
		json.Unmarshal(lines[idx], &evName)
		what := fmt.Sprintf("recorded execution is not a behaviour of the specification %s: event %s not accepted", module, string(lines[idx]))
		key := entry + ":trace-rejected@" + evName.E
		if tr.InvViol != "" {
			what = "invariant " + tr.InvViol + " of the specification violated by the recorded execution at event " + string(lines[idx])
			key = entry + ":trace-invariant@" + tr.InvViol
		}
		var ob *core.Obs
		if oi < len(obs) {
			ob = &obs[oi]
		}
		r.Violate(key, what, replayOf(&ops[oi], ob, map[string]interface{}{"trace": rawLines(lines, owner, oi)}))
		lo, hi := idx, idx
		for lo > 0 && owner[lo-1] == oi {
			lo--
		}
		for hi < len(lines) && owner[hi] == oi {
			hi++
		}
		r.Traces += countStarts(owner[:lo])
		mu.Unlock()
		lines, owner = lines[hi:], owner[hi:]
	}
}

// bindingSelfTest corrupts one recorded argument of the first `event` (after the first 100 lines) and requires the
// trace specification to refuse the prefix up to there: the demonstration that the specification constrains the
// recorded executions and not only their length.
func bindingSelfTest(r *core.Run, module, cfg string, ts *traceSet, event string, arg int, delta float64) {
	idx := -1
	esc := strings.NewReplacer(">", "\\u003e", "<", "\\u003c").Replace(event)
	for i, l := range ts.lines {
		if i > 100 && (bytes.Contains(l, []byte(`"e":"`+event+`"`)) || bytes.Contains(l, []byte(`"e":"`+esc+`"`))) {
			idx = i
			break
		}
	}
	if idx < 0 {
		r.Machinery("%s binding self-test: no %s event recorded", module, event)
		return
	}
	// the whole run that contains the event (from its start record on), plus the lines before it
	n := idx + 1
	for n < len(ts.lines) && ts.owner[n] == ts.owner[idx] {
		n++
	}
	cor := append([][]byte{}, ts.lines[:n]...)
	var e map[string]interface{}
	json.Unmarshal(cor[idx], &e)
	a, _ := e["a"].([]interface{})
	if arg >= len(a) {
		r.Machinery("%s binding self-test: event %s has %d arguments", module, event, len(a))
		return
	}
	a[arg] = a[arg].(float64) + delta
	cor[idx], _ = json.Marshal(e)
	tr, err := core.ValidateTrace(module, cfg, cor, false, 10*time.Minute)
	if err == nil {
		tr.TLC.Cleanup()
	}
	if err != nil || tr.Accepted {
		r.Machinery("%s binding self-test failed: a corrupted %s event was accepted (err=%v)", module, event, err)
		return
	}
	r.Extra["binding_selftest"] = fmt.Sprintf("a %s event with argument %d off by %v is refused by %s (matched %d of %d lines, corrupted line %d, invariant %q)", event, arg, delta, module, tr.Matched, len(cor), idx, tr.InvViol)
}
