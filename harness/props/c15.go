package props

import (
	"fmt"
	"math/rand"
	"strings"
	"time"

	"verif/core"
)

func init() { Register("C15", runC15) }

var logLevels = []string{"trace", "debug", "info", "warn", "error", "fatal", "panic"}
var logWriters = []string{"discard", "buf", "fail"}

func runC15(r *core.Run) {
	rng := rand.New(rand.NewSource(r.Seed))
	r.Rule = "the Log specification: log steps are stuttering steps of the result-relevant state for every level, marshalers index only what exists (the `unguarded` deviation violates it); every case of a sample of the fault corpus (well-formed, malformed, truncated, samples) is run at the default configuration and under imagemeta.SetLogger(w, level) for 7 levels x 3 writers {discard, buffer, always-failing}: value and error identical to the default run, no panic; at the default configuration the bytes written to fd 1 and fd 2 are 0"
	t, err := core.RunTLC(core.TLCOpts{Module: "MC_Log", Cfg: "Log.guarded.cfg", Workers: 4, Timeout: 10 * time.Minute})
	if err != nil || !t.OK {
		r.Machinery("TLC run on Log (guarded) failed: %v %s", err, tail(t))
		t.Cleanup()
		return
	}
	r.AddTLC("Log.guarded", t)
	t.Cleanup()
	s, err := core.RunTLC(core.TLCOpts{Module: "MC_Log", Cfg: "Log.unguarded.cfg", Workers: 2, Timeout: 10 * time.Minute})
	if err != nil || s.Violated == "" {
		r.Machinery("Log (unguarded marshaler deviation) was expected to violate an invariant in the model: %v %s", err, tail(s))
		s.Cleanup()
		return
	}
	r.Extra["deviation_unguarded"] = "violates " + s.Violated
	s.Cleanup()
	all, info, ok := buildFaultCases(r, rng, false)
	if !ok {
		return
	}
	// sample: every k-th case, all repository samples (whole), spread over kinds
	want := 2500
	if r.Tier == "thorough" {
		want = 12000
	}
	step := len(all)/want + 1
	var cases []faultCase
	off := rng.Intn(step)
	for i := range all {
		// marshalers iterate file-declared counts: every rewrite of a count field (without truncation) is kept
		if i%step == off || (all[i].cut < 0 && strings.Contains(all[i].what, "count := ") && i%2 == 0) {
			cases = append(cases, all[i])
		}
	}
	var ops []core.Op
	var opCase, opCfg []int
	for ci, c := range cases {
		ops = append(ops, core.Op{ID: len(ops), Kind: "call", Data: c.in.Data, Cut: c.cut, Fault: c.fault, Args: callArgsJSON(c.entry)})
		opCase, opCfg = append(opCase, ci), append(opCfg, -1)
		for li, l := range logLevels {
			for wi, w := range logWriters {
				if r.Tier != "thorough" && (li+wi+ci)%3 != 0 && !(l == "info" || l == "trace") {
					continue // quick: all of trace/info, a third of the rest
				}
				ops = append(ops, core.Op{ID: len(ops), Kind: "call", Data: c.in.Data, Cut: c.cut, Fault: c.fault, Args: callArgsJSON(c.entry), Level: l + ":" + w})
				opCase, opCfg = append(opCase, ci), append(opCfg, li*3+wi)
			}
		}
	}
	obs, err := core.RunOps(ops, core.WorkerOpts{Stall: 10 * time.Second, Shards: 14})
	if err != nil {
		r.Machinery("worker: %v", err)
		return
	}
	base := map[int]*core.Obs{}
	for i := range obs {
		if opCfg[i] == -1 {
			base[opCase[i]] = &obs[i]
		}
	}
	for i := range obs {
		o, op, c := &obs[i], &ops[i], &cases[opCase[i]]
		r.Cases++
		desc := map[string]interface{}{"input": c.in.Name, "entry": c.entry, "cut": c.cut, "malformation": c.what, "logger": op.Level}
		if opCfg[i] == -1 {
			if o.Std > 0 && !o.Bad() {
				r.Violate("stdout:"+c.entry+":"+c.in.Kind, fmt.Sprintf("%s wrote %d bytes to standard output/error under the default configuration on: %s [%s]", c.entry, o.Std, c.what, c.in.Name), replayOf(op, o, desc))
			}
			continue
		}
		b := base[opCase[i]]
		if b == nil || b.Bad() {
			continue // C01's subject
		}
		lvl := logLevels[opCfg[i]/3]
		switch {
		case o.Bad():
			r.Violate("log-"+o.BadKind()+"@"+o.Site, fmt.Sprintf("%s %s with the logger at level %s (returns normally at the default level): %s%s on: %s [%s]", c.entry, o.BadKind(), op.Level, o.Panic, o.Crash, c.what, c.in.Name), replayOf(op, o, desc))
		case o.Err != b.Err:
			r.Violate("log-error-differs:"+c.entry+":"+lvl, fmt.Sprintf("%s returns error %q with the logger at %s and %q at the default level on: %s [%s]", c.entry, o.Err, op.Level, b.Err, c.what, c.in.Name), replayOf(op, o, desc))
		case string(o.R) != string(b.R):
			r.Violate("log-value-differs:"+c.entry+":"+lvl, fmt.Sprintf("%s returns a different value with the logger at %s than at the default level (%s) on: %s [%s]", c.entry, op.Level, firstDiff(o.R, b.R), c.what, c.in.Name), replayOf(op, o, desc))
		}
		if i%30000 == 0 {
			r.Sample(desc)
		}
	}
	for k, v := range info {
		r.Extra[k] = v
	}
	r.Extra["cases_sampled"] = len(cases)
	r.Exhaustive = false
	r.Assumptions = append(r.Assumptions, "a seeded sample of the C01 corpus; quick runs all writers at trace/info and a third of the other level x writer pairs")
}
