package props

import (
	"fmt"
	"math/rand"
	"strings"
	"time"

	"verif/core"
	"verif/gen"
)

func init() { Register("C15", runC15) }

var logLevels = []string{"trace", "debug", "info", "warn", "error", "fatal", "panic"}
var logWriters = []string{"discard", "buf", "fail"}

func runC15(r *core.Run) {
	rng := rand.New(rand.NewSource(r.Seed))
	r.Rule = "the Log specification: log steps are stuttering steps of the result-relevant state for every level, marshalers index only what exists (the `unguarded` deviation violates it); every case of a sample of the fault corpus (well-formed, malformed, truncated, samples) is run at the default configuration and under imagemeta.SetLogger(w, level) for 7 levels x 3 writers {discard, buffer, always-failing}: value and error identical to the default run, no panic; at the default configuration the bytes written to fd 1 and fd 2 are 0"
	t, err := core.RunTLC(core.TLCOpts{Module: "MC_Log", Cfg: "Log.guarded.cfg", Workers: 4, Timeout: 10 * time.Minute})
	if err != nil || !t.OK {
		r.Machinery("TLC run on Log (guarded) failed: %v %s", err, tail(t))
		t.Cleanup()
		return
	}
	r.AddTLC("Log.guarded", t)
	t.Cleanup()
	s, err := core.RunTLC(core.TLCOpts{Module: "MC_Log", Cfg: "Log.unguarded.cfg", Workers: 2, Timeout: 10 * time.Minute})
	if err != nil || s.Violated == "" {
		r.Machinery("Log (unguarded marshaler deviation) was expected to violate an invariant in the model: %v %s", err, tail(s))
		s.Cleanup()
		return
	}
	r.Extra["deviation_unguarded"] = "violates " + s.Violated
	s.Cleanup()
	pk, err := core.RunTLC(core.TLCOpts{Module: "MC_Log", Cfg: "Log.peeking.cfg", Workers: 2, Timeout: 10 * time.Minute})
	if err != nil || pk.Violated == "" {
		r.Machinery("Log (peeking log argument deviation) was expected to violate LogStutter in the model: %v %s", err, tail(pk))
		pk.Cleanup()
		return
	}
	r.Extra["deviation_peeking"] = "violates " + pk.Violated
	pk.Cleanup()
	all, info, ok := buildFaultCases(r, rng, false)
	if !ok {
		return
	}
	// sample: every k-th case, all repository samples (whole), spread over kinds
	want := 2500
	if r.Tier == "thorough" {
		want = 12000
	}
	step := len(all)/want + 1
	var cases []faultCase
	off := rng.Intn(step)
	for i := range all {
		// marshalers iterate file-declared counts: every rewrite of a count field (without truncation) is kept
		if i%step == off || (all[i].cut < 0 && strings.Contains(all[i].what, "count := ") && i%2 == 0) {
			cases = append(cases, all[i])
		}
	}
	var ops []core.Op
	var opCase, opCfg []int
	for ci, c := range cases {
		ops = append(ops, core.Op{ID: len(ops), Kind: "call", Data: c.in.Data, Cut: c.cut, Fault: c.fault, Args: callArgsJSON(c.entry)})
		opCase, opCfg = append(opCase, ci), append(opCfg, -1)
		for li, l := range logLevels {
			for wi, w := range logWriters {
				if r.Tier != "thorough" && (li+wi+ci)%3 != 0 && !(l == "info" || l == "trace") {
					continue // quick: all of trace/info, a third of the rest
				}
				ops = append(ops, core.Op{ID: len(ops), Kind: "call", Data: c.in.Data, Cut: c.cut, Fault: c.fault, Args: callArgsJSON(c.entry), Level: l + ":" + w})
				opCase, opCfg = append(opCase, ci), append(opCfg, li*3+wi)
			}
		}
	}
	obs, err := core.RunOps(ops, core.WorkerOpts{Stall: 10 * time.Second, Shards: 14})
	if err != nil {
		r.Machinery("worker: %v", err)
		return
	}
	base := map[int]*core.Obs{}
	for i := range obs {
		if obs[i].Skipped {
			continue // not executed: the run had already met many calls that do not return
		}
		if opCfg[i] == -1 {
			base[opCase[i]] = &obs[i]
		}
	}
	for i := range obs {
		if obs[i].Skipped {
			continue // not executed: the run had already met many calls that do not return
		}
		o, op, c := &obs[i], &ops[i], &cases[opCase[i]]
		r.Cases++
		desc := map[string]interface{}{"input": c.in.Name, "entry": c.entry, "cut": c.cut, "malformation": c.what, "logger": op.Level}
		if opCfg[i] == -1 {
			if o.Std > 0 && !o.Bad() {
				r.Violate("stdout:"+c.entry+":"+c.in.Kind, fmt.Sprintf("%s wrote %d bytes to standard output/error under the default configuration on: %s [%s]", c.entry, o.Std, c.what, c.in.Name), replayOf(op, o, desc))
			}
			continue
		}
		b := base[opCase[i]]
		if b == nil || b.Bad() {
			continue // C01's subject
		}
		lvl := logLevels[opCfg[i]/3]
		switch {
		case o.Bad():
			r.Violate("log-"+o.BadKind()+"@"+o.Site, fmt.Sprintf("%s %s with the logger at level %s (returns normally at the default level): %s%s on: %s [%s]", c.entry, o.BadKind(), op.Level, o.Panic, o.Crash, c.what, c.in.Name), replayOf(op, o, desc))
		case o.Err != b.Err:
			r.Violate("log-error-differs:"+c.entry+":"+lvl, fmt.Sprintf("%s returns error %q with the logger at %s and %q at the default level on: %s [%s]", c.entry, o.Err, op.Level, b.Err, c.what, c.in.Name), replayOf(op, o, desc))
		case string(o.R) != string(b.R):
			r.Violate("log-value-differs:"+c.entry+":"+lvl, fmt.Sprintf("%s returns a different value with the logger at %s than at the default level (%s) on: %s [%s]", c.entry, op.Level, firstDiff(o.R, b.R), c.what, c.in.Name), replayOf(op, o, desc))
		}
		if i%30000 == 0 {
			r.Sample(desc)
		}
	}
	for k, v := range info {
		r.Extra[k] = v
	}
	r.Extra["cases_sampled"] = len(cases)
	runLogAlign(r)
	r.Exhaustive = false
	r.Assumptions = append(r.Assumptions, "a seeded sample of the C01 corpus; quick runs all writers at trace/info and a third of the other level x writer pairs")
}

// runLogAlign: the model's `win` dimension. The same directories and values are placed at EVERY alignment
// with the reader's buffer windows (IFD0 at 8 .. 4200: each directory, entry block and value crosses the
// 4 KiB boundary at some shift) and decoded at the default level and at the enabling levels; value and
// error must not depend on the level.
func runLogAlign(r *core.Run) {
	levels := []string{"trace:discard", "info:discard"}
	if r.Tier == "thorough" {
		levels = nil
		for _, l := range logLevels {
			levels = append(levels, l+":discard")
		}
		levels = append(levels, "info:buf", "info:fail", "trace:buf")
	}
	var ops []core.Op
	type ak struct {
		bo    string
		shift int
		entry string
	}
	var keys []ak
	for _, bo := range []string{"LE", "BE"} {
		for shift := 8; shift <= 4200; shift++ {
			data := gen.BuildFullTIFFAt(rand.New(rand.NewSource(r.Seed)), bo, shift)
			for k := 0; k < 6000; k++ { // image data: more than one buffer window behind the metadata
				data = append(data, byte(0xA0+k%7))
			}
			for ei, entry := range []string{"DecodeTiff", "Parse"} {
				if r.Tier != "thorough" && (shift+ei)%2 == 1 {
					continue
				}
				ops = append(ops, core.Op{ID: len(ops), Kind: "call", Data: data, Cut: -1, Args: callArgsJSON(entry)})
				keys = append(keys, ak{bo, shift, entry})
				for _, l := range levels {
					ops = append(ops, core.Op{ID: len(ops), Kind: "call", Data: data, Cut: -1, Args: callArgsJSON(entry), Level: l})
					keys = append(keys, ak{bo, shift, entry})
				}
			}
		}
	}
	obs, err := core.RunOps(ops, core.WorkerOpts{Stall: 10 * time.Second, Shards: 14})
	if err != nil {
		r.Machinery("worker: %v", err)
		return
	}
	var b *core.Obs
	for i := range obs {
		if obs[i].Skipped {
			continue // not executed: the run had already met many calls that do not return
		}
		o, op, k := &obs[i], &ops[i], keys[i]
		r.Cases++
		if op.Level == "" {
			b = o
			if o.Bad() || o.Err != "" {
				r.Machinery("alignment sweep: the default-level run fails at shift %d (%s%s%s)", k.shift, o.Err, o.Panic, o.Crash)
				return
			}
			continue
		}
		desc := map[string]interface{}{"input": fmt.Sprintf("all-tags TIFF (%s), IFD0 at %d", k.bo, k.shift), "entry": k.entry, "logger": op.Level}
		switch {
		case o.Bad():
			r.Violate("log-"+o.BadKind()+"@"+o.Site, fmt.Sprintf("%s %s with the logger at %s (returns normally at the default level): %s%s on the all-tags TIFF with IFD0 at %d", k.entry, o.BadKind(), op.Level, o.Panic, o.Crash, k.shift), replayOf(op, o, desc))
		case o.Err != b.Err:
			r.Violate("log-error-differs:"+k.entry+":align", fmt.Sprintf("%s returns error %q with the logger at %s and %q at the default level on the all-tags TIFF with IFD0 at %d", k.entry, o.Err, op.Level, b.Err, k.shift), replayOf(op, o, desc))
		case string(o.R) != string(b.R):
			r.Violate("log-value-differs:"+k.entry+":align", fmt.Sprintf("%s returns a different value with the logger at %s than at the default level (%s) on the all-tags TIFF with IFD0 at %d", k.entry, op.Level, firstDiff(o.R, b.R), k.shift), replayOf(op, o, desc))
		}
	}
	r.Extra["alignment_sweep_ops"] = len(ops)
}
