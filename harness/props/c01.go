package props

import (
	"bytes"
	"encoding/json"
	"fmt"
	"hash/fnv"
	"math/rand"
	"path/filepath"
	"sort"
	"strings"
	"time"

	"verif/core"
	"verif/gen"
)

func init() {
	Register("C01", func(r *core.Run) { runFaults(r, "C01") })
	Register("C02", func(r *core.Run) { runFaults(r, "C02") })
}

type faultPlan struct {
	Plan []struct {
		At    int    `json:"at"`
		Class string `json:"class"`
	} `json:"plan"`
	CutAt  int    `json:"cutAt"`
	CutHow string `json:"cutHow"`
	Fault  string `json:"fault"`
	Res    string `json:"res"`
}

var faultShape = []string{"magic", "size", "count", "type", "ucount", "offset", "data"}

// classValue turns a value class of the Fault specification into the integer written into a field.
func classValue(class string, f gen.Field, d []byte) (uint64, bool) {
	v := f.Get(d)
	rel := func(abs int) uint64 {
		if abs < f.Base {
			return 0
		}
		return uint64(abs - f.Base)
	}
	switch class {
	case "zero", "t0":
		return 0, true
	case "one":
		return 1, true
	case "five":
		return 5, true
	case "hdrMinus1":
		return 7, true
	case "exactMinus1":
		return v - 1, v > 0
	case "exactPlus1":
		return v + 1, true
	case "beyondParent":
		return v + 1000, true
	case "max16":
		return 0xFFFF, true
	case "max16m1":
		return 0xFFFE, true
	case "max31":
		return 0x7FFFFFFF, true
	case "max32":
		return 0xFFFFFFFF, true
	case "huge30":
		return 1 << 30, true
	case "c85":
		return 85, true
	case "c86":
		return 86, true
	case "c128":
		return 128, true
	case "c129":
		return 129, true
	case "c1025":
		return 1025, true
	case "c4097":
		return 4097, true
	case "backward":
		return v - 1, v > 0
	case "self":
		return rel(f.Off), true
	case "lastByte":
		return rel(len(d) - 1), true
	case "eof":
		return rel(len(d)), true
	case "eofPlus1":
		return rel(len(d) + 1), true
	case "t6":
		return 6, true
	case "t13":
		return 13, true
	case "t255":
		return 255, true
	}
	return 0, false
}

// applyClass returns the file with field f rewritten according to the class.
func applyClass(class string, f gen.Field, d []byte, rng *rand.Rand) ([]byte, bool) {
	switch class {
	case "flip":
		out := append([]byte{}, d...)
		out[f.Off+rng.Intn(f.Size)] ^= 0xFF
		return out, true
	case "garbage":
		out := append([]byte{}, d...)
		for i := 0; i < f.Size; i++ {
			out[f.Off+i] = byte(rng.Intn(256))
		}
		return out, true
	case "zeroden": // rationals with non-zero numerators over zero denominators
		out := append([]byte{}, d...)
		for i := 0; i < f.Size; i++ {
			if i%8 >= 4 || f.Size < 8 && i >= f.Size/2 {
				out[f.Off+i] = 0
			} else if out[f.Off+i] == 0 {
				out[f.Off+i] = byte(1 + rng.Intn(200))
			}
		}
		return out, true
	case "allFF":
		out := append([]byte{}, d...)
		for i := 0; i < f.Size; i++ {
			out[f.Off+i] = 0xFF
		}
		return out, true
	case "wrap32":
		// the structure that follows is looked for at (position + size) mod 2^32 = the first structure of the file
		if f.Size != 4 {
			return nil, false
		}
		var v uint64
		switch {
		case f.Name == "png.chunklen" && f.Off > 8: // next chunk header = off + 8 + len + 4 (CRC)  ==  8 (first chunk)
			v = 1<<32 - uint64(f.Off+12) + 8
		case strings.HasPrefix(f.Name, "box.size:") && f.Off > 0: // next box = off + size  ==  0 (start of the file)
			v = 1<<32 - uint64(f.Off)
		default:
			return nil, false
		}
		return f.Put(d, v), true
	case "shrunk1", "shrunk3":
		k := 1
		if class == "shrunk3" {
			k = 3
		}
		return shrinkFrame(f, d, k)
	case "short": // a value shorter than the parser's fixed indices: NULs from the second byte on
		out := append([]byte{}, d...)
		for i := 1; i < f.Size; i++ {
			out[f.Off+i] = 0
		}
		return out, true
	}
	v, ok := classValue(class, f, d)
	if !ok {
		return nil, false
	}
	return f.Put(d, v), true
}

// frameOf returns the byte range [start, end) a size field frames, and what the size counts from.
func frameOf(f gen.Field, d []byte) (start, end int, ok bool) {
	v := int(f.Get(d))
	switch {
	case strings.HasPrefix(f.Name, "box.size:"), f.Name == "PRVW.size", f.Name == "jpeg.seglen":
		return f.Off, f.Off + v, v > f.Size && f.Off+v <= len(d)
	case f.Name == "png.chunklen":
		return f.Off + 8, f.Off + 8 + v, v > 0 && f.Off+8+v <= len(d)
	}
	return 0, 0, false
}

// shrinkFrame deletes the last k bytes of the frame of f and shortens f and every frame that contains it by k:
// all sizes stay consistent with the bytes, only the content of the innermost frame ends early.
func shrinkFrame(f gen.Field, d []byte, k int) ([]byte, bool) {
	_, end, ok := frameOf(f, d)
	if !ok || int(f.Get(d)) <= k+f.Size+4 {
		return nil, false
	}
	out := append([]byte{}, d...)
	// the fields are not known here: enclosing frames are found by scanning the same kinds of size fields
	for _, g := range sizeFieldsOf(d, f) {
		gs, ge, ok := frameOf(g, d)
		if ok && gs <= f.Off && end <= ge && g.Off != f.Off {
			out = g.Put(out, g.Get(d)-uint64(k))
		}
	}
	out = f.Put(out, f.Get(d)-uint64(k))
	return append(out[:end-k], out[end:]...), true
}

// sizeFieldsOf: the size fields that may enclose f (registered by buildFaultCases for the file being rewritten).
var currentFields []gen.Field

func sizeFieldsOf(d []byte, f gen.Field) []gen.Field {
	var out []gen.Field
	for _, g := range currentFields {
		if g.Kind == "size" && g.Size >= 2 {
			out = append(out, g)
		}
	}
	return out
}

func pickField(fs []gen.Field, kind string, salt uint32) (gen.Field, bool) {
	var c []gen.Field
	for _, f := range fs {
		if f.Kind == kind {
			c = append(c, f)
		}
	}
	if len(c) == 0 {
		return gen.Field{}, false
	}
	return c[int(salt)%len(c)], true
}

func hash32(parts ...interface{}) uint32 {
	h := fnv.New32a()
	fmt.Fprint(h, parts...)
	return h.Sum32()
}

type faultCase struct {
	in    fileInput
	entry string
	cut   int
	fault string
	what  string // description of the malformation
}

func panicClass(p string) string {
	switch {
	case strings.Contains(p, "index out of range"):
		return "index"
	case strings.Contains(p, "slice bounds out of range"):
		return "slice"
	case strings.Contains(p, "nil pointer"):
		return "nil"
	case strings.Contains(p, "divide by zero"):
		return "div0"
	case strings.Contains(p, "makeslice"), strings.Contains(p, "out of memory"):
		return "alloc"
	case strings.Contains(p, "interface conversion"):
		return "conversion"
	}
	return "explicit"
}

// buildFaultCases runs the Fault specification and builds the shared malformed/truncated corpus.
// onlyBig restricts it to single rewrites of size-like fields with large value classes (no truncation): the C14 corpus.
func buildFaultCases(r *core.Run, rng *rand.Rand, onlyBig bool) (cases []faultCase, info map[string]interface{}, okAll bool) {
	r.Rule = "TLC checks the input-grammar/fault model Fault: the guarded reader design satisfies NoOOB/NoStall/NoBlowup/Returns for every malformation plan (<= MaxMal value classes on field roles magic/size/count/ucount/offset/type/data) x truncation (before / +1 / last byte of a field, or none) x fault kind (EOF, non-EOF error); the deviations `unchecked` and `trusting` violate them. Every emitted plan is applied to the field maps of generated files in every container and run on every corresponding entry point; additionally every truncation point 0..len of the unmutated generated files and of XMP packets, seeded cuts of the repository samples, seeded byte-level mutations, XMP packets with boundary numbers, and every case of the cost model Scale (truthful files that are large by repetition, by one long token, or by repeated structures with overstating counts; the 64-fold files truncated at every byte)"
	t, err := core.RunTLC(core.TLCOpts{Module: "MC_Fault", Cfg: "Fault.guarded.cfg", Workers: 4, Timeout: 10 * time.Minute, Consts: map[string]string{"MaxMal": map[bool]string{false: "1", true: "2"}[r.Tier == "thorough"]}})
	defer t.Cleanup()
	if err != nil || !t.OK {
		r.Machinery("TLC run on Fault (guarded) failed: %v %s", err, tail(t))
		return nil, nil, false
	}
	r.AddTLC("Fault.guarded", t)
	for _, dev := range []string{"unchecked", "trusting"} {
		s, err := core.RunTLC(core.TLCOpts{Module: "MC_Fault", Cfg: "Fault." + dev + ".cfg", Workers: 2, Timeout: 10 * time.Minute})
		if err != nil || s.Violated == "" {
			r.Machinery("Fault (%s deviation) was expected to violate an invariant in the model: %v %s", dev, err, tail(s))
			s.Cleanup()
			return nil, nil, false
		}
		r.Extra["deviation_"+dev] = "violates " + s.Violated
		s.Cleanup()
	}
	var plans []faultPlan
	_, err = core.ReadEmitted(filepath.Join(t.Dir, "emit.ndjson"), func(raw json.RawMessage) error {
		var p faultPlan
		if e := json.Unmarshal(raw, &p); e != nil {
			return e
		}
		plans = append(plans, p)
		return nil
	})
	if err != nil || len(plans) == 0 {
		r.Machinery("reading emitted fault plans: %v (n=%d)", err, len(plans))
		return nil, nil, false
	}
	if r.Tier == "thorough" && len(plans) > 40000 { // MaxMal = 2: seeded sample of the pairs, all singles
		var keep []faultPlan
		for _, p := range plans {
			if len(p.Plan) < 2 || rng.Intn(len(plans)/30000+1) == 0 {
				keep = append(keep, p)
			}
		}
		plans = keep
	}
	per := 1
	if r.Tier == "thorough" {
		per = 4
	}
	items, ok := exifCorpus(r, []string{"Exif.cont.cfg"}, rng)
	if !ok {
		return nil, nil, false
	}
	// records made of timestamp / GPS parts: the parsers that index values at fixed positions
	titems, ok := exifCorpus(r, []string{"Exif.time.cfg"}, rng)
	if !ok {
		return nil, nil, false
	}
	var t3 []exifItem
	for _, it := range titems {
		if len(it.C.Pick) == 3 && it.C.Variant == "jpeg" {
			t3 = append(t3, it)
		}
	}
	// base files: rich records (two picks incl. out-of-line values and sub-directories) in every container
	type baseFile struct {
		in   fileInput
		tiff []byte
		fs   []gen.Field
	}
	var bases []baseFile
	rich := func(it *exifItem) bool { return len(it.C.Lay) >= 2 }
	picked := 0
	pool := append([]exifItem{}, items...)
	order := rng.Perm(len(pool))
	tn := 2 * per
	for k := 0; k < tn && len(t3) > 0; k++ { // first the timestamp/GPS records
		pool = append(pool, t3[rng.Intn(len(t3))])
		order = append([]int{len(pool) - 1}, order...)
	}
	for _, i := range order {
		if picked >= per+tn {
			break
		}
		it := &pool[i]
		if !rich(it) {
			continue
		}
		bo := []string{"LE", "BE"}[picked%2]
		for _, cont := range []string{"tiff", "jpeg", "png", "cr3", "cr3split", "heif", "avif"} {
			kind := cont
			if cont == "cr3split" {
				kind = "cr3"
			}
			d := wrapContainer(cont, it, bo, rng, 1+picked%2)
			bases = append(bases, baseFile{fileInput{Name: fmt.Sprintf("gen:%s/%s#%d", cont, bo, i), Kind: kind, Data: d, Gen: true}, it.Tiff[bo], gen.MapFile(kind, d, it.Tiff[bo])})
		}
		d := cr3WithPreview(it.Tiff[bo], 5000, false, rng)
		bases = append(bases, baseFile{fileInput{Name: fmt.Sprintf("gen:cr3+preview#%d", i), Kind: "cr3", Data: d, Gen: true}, it.Tiff[bo], gen.MapFile("cr3", d, it.Tiff[bo])})
		picked++
	}
	// the kitchen-sink payload: every catalog tag in every directory, so that every value parser is reached
	for k, bo := range []string{"LE", "BE"} {
		full := exifItem{C: &gen.ExifCase{Ifd0At: 8, Variant: "jpeg"}, Tiff: map[string][]byte{bo: gen.BuildFullTIFF(rng, bo)}}
		for _, cont := range []string{"tiff", "jpeg", "png", "cr3", "heif"} {
			if k == 1 && cont != "tiff" && cont != "cr3" {
				continue
			}
			d := wrapContainer(cont, &full, bo, rng, 1)
			bases = append(bases, baseFile{fileInput{Name: "gen:alltags/" + cont + "/" + bo, Kind: cont, Data: d, Gen: true}, full.Tiff[bo], gen.MapFile(cont, d, full.Tiff[bo])})
		}
	}
	if len(bases) == 0 {
		r.Machinery("no base files")
		return nil, nil, false
	}
	agnostic := []string{"Parse", "ParseXmp", "imagetype.Scan", "ScanTiffHeader", "Decode", "BmffReader", "ScanJPEG"}
	addCase := func(in fileInput, cut int, fault, what string, salt uint32) {
		es := append([]string{}, entriesByKind[in.Kind]...)
		es = append(es, agnostic[int(salt)%len(agnostic)])
		for _, e := range es {
			cases = append(cases, faultCase{in, e, cut, fault, what})
		}
	}
	// (a) the specification's plans on the field maps
	nplans := 0
	bigClass := map[string]bool{"max16": true, "max16m1": true, "max31": true, "max32": true, "huge30": true, "c4097": true, "c1025": true, "beyondParent": true, "c129": true, "eofPlus1": true, "allFF": true}
	for pi, p := range plans {
		if onlyBig {
			break
		}
		for bi := range bases {
			b := &bases[bi]
			salt := hash32(pi, bi, r.Seed)
			currentFields = b.fs
			d := b.in.Data
			what := "well-formed"
			okPlan := true
			var mutOff int
			for _, m := range p.Plan {
				f, ok := pickField(b.fs, faultShape[m.At-1], salt)
				if !ok {
					okPlan = false
					break
				}
				nd, ok := applyClass(m.Class, f, d, rng)
				if !ok {
					okPlan = false
					break
				}
				d = nd
				mutOff = f.Off
				what = fmt.Sprintf("%s := %s (field at %d, %d bytes)", f.Name, m.Class, f.Off, f.Size)
			}
			if !okPlan {
				continue
			}
			cut := -1
			if p.CutAt > 0 {
				// the nearest field of the cut role at or after the rewritten field
				var cf *gen.Field
				for k := range b.fs {
					f := &b.fs[k]
					if f.Kind == faultShape[p.CutAt-1] && f.Off >= mutOff && (cf == nil || f.Off < cf.Off) {
						cf = f
					}
				}
				if cf == nil {
					continue
				}
				switch p.CutHow {
				case "before":
					cut = cf.Off
				case "plus1":
					cut = cf.Off + 1
				default:
					cut = cf.Off + cf.Size - 1
				}
				what += fmt.Sprintf("; stream ends at %d (%s of %s) with %s", cut, p.CutHow, cf.Name, p.Fault)
			}
			in := b.in
			in.Data = d
			addCase(in, cut, p.Fault, what, salt)
			nplans++
		}
	}
	// (a') single rewrites without truncation: EVERY field of the role, not one rotating pick
	for _, p := range plans {
		if len(p.Plan) != 1 || p.CutAt != 0 || p.Fault != "EOF" {
			continue
		}
		m := p.Plan[0]
		if onlyBig && !bigClass[m.Class] {
			continue
		}
		for bi := range bases {
			b := &bases[bi]
			currentFields = b.fs
			for fi, f := range b.fs {
				if f.Kind != faultShape[m.At-1] {
					continue
				}
				nd, ok := applyClass(m.Class, f, b.in.Data, rng)
				if !ok {
					continue
				}
				in := b.in
				in.Data = nd
				addCase(in, -1, "EOF", fmt.Sprintf("%s := %s (field at %d, %d bytes)", f.Name, m.Class, f.Off, f.Size), uint32(fi))
				nplans++
				if !onlyBig || f.Kind == "magic" || f.Kind == "data" || f.Kind == "type" {
					continue
				}
				// consistent lies: the enclosing structures declare room for the inflated value
				// (nearest enclosing size field, then all of them), so that a clamp against the
				// DECLARED remainder of the parent does not hide a file-driven allocation
				var enc []gen.Field
				for _, g := range b.fs {
					if g.Kind == "size" && g.Size >= 4 && g.Off < f.Off {
						if n := int(g.Get(b.in.Data)); n > 0 && f.Off < g.Off+n {
							enc = append(enc, g)
						}
					}
				}
				for k := 1; k <= len(enc); k++ {
					if k != 1 && k != len(enc) {
						continue
					}
					d2 := nd
					for _, g := range enc[len(enc)-k:] {
						d2 = g.Put(d2, 1<<30)
					}
					in2 := b.in
					in2.Data = d2
					addCase(in2, -1, "EOF", fmt.Sprintf("%s := %s and its %d enclosing size field(s) := 2^30", f.Name, m.Class, k), uint32(fi))
					nplans++
				}
			}
		}
	}
	// (b) every truncation point of the unmutated files, both fault kinds
	for bi := range bases {
		if onlyBig {
			break
		}
		b := &bases[bi]
		step := 1
		if r.Tier != "thorough" && len(b.in.Data) > 1200 {
			step = len(b.in.Data)/1200 + 1
		}
		for k := 0; k <= len(b.in.Data); k += step {
			addCase(b.in, k, []string{"EOF", "ERR"}[k%2], fmt.Sprintf("well-formed file truncated at %d", k), uint32(k))
		}
	}
	// (b') XMP packets (bare, and as the xpacket of a CR3 file): every truncation point
	if !onlyBig {
		xm := []fileInput{{Name: "gen:xmp/sample", Kind: "xmp", Data: []byte(sampleXMP), Gen: true}}
		for k := 0; k < 2; k++ {
			items := []gen.XItem{{P: "tiff:Make", Form: "attr", Q: "dq", V: 40, WS: "sp"}, {P: "aux:Lens", Form: "attr", Q: "sq", V: 300, WS: "nl"},
				{P: "xmp:CreateDate", Form: []string{"attr", "elem"}[k], Q: "dq", WS: "nlsp"}, {P: "exif:FNumber", Form: "elem", Q: "dq", WS: "nl"}, {P: "xmp:Label", Form: "elem", Q: "dq", V: 700, WS: "sp"}}
			xm = append(xm, fileInput{Name: fmt.Sprintf("gen:xmp/packet#%d", k), Kind: "xmp", Data: gen.BuildXMP(items, rng, 30*k, true).Data, Gen: true})
		}
		tiff := gen.BuildFullTIFF(rand.New(rand.NewSource(r.Seed)), "LE")
		xm = append(xm, fileInput{Name: "gen:cr3+xmp", Kind: "cr3", Data: gen.WrapCR3(gen.CR3Parts{CMT1: tiff[:200], XPacket: []byte(sampleXMP)}, rng, 0), Gen: true})
		for _, in := range xm {
			from := 0
			if in.Kind == "cr3" {
				from = bytes.Index(in.Data, []byte("<?xpacket")) - 30
			}
			for k := from; k <= len(in.Data); k++ {
				addCase(in, k, []string{"EOF", "ERR"}[k%2], fmt.Sprintf("well-formed %s truncated at %d", in.Kind, k), uint32(k))
			}
		}
	}
	// (c) the repository's samples: whole, seeded cuts, seeded byte mutations
	ncuts := 24
	if r.Tier == "thorough" {
		ncuts = 400
	}
	for _, s := range repoSamples(128 * 1024) {
		addCase(s, -1, "EOF", "repository sample", 0)
		for k := 0; k < ncuts; k++ {
			c := rng.Intn(len(s.Data))
			if k%2 == 0 && len(s.Data) > 2048 {
				c = rng.Intn(2048)
			}
			addCase(s, c, []string{"EOF", "ERR"}[k%2], fmt.Sprintf("repository sample truncated at %d", c), uint32(k))
		}
		for k := 0; k < ncuts/2; k++ {
			m := s
			m.Data = append([]byte{}, s.Data...)
			lim := len(m.Data)
			if lim > 4096 {
				lim = 4096
			}
			for j := 0; j < 1+k%3; j++ {
				m.Data[rng.Intn(lim)] = byte(rng.Intn(256))
			}
			addCase(m, -1, "EOF", "repository sample with seeded byte mutations in the first 4 KiB", uint32(k))
		}
	}
	// (d) seeded random byte strings
	for k := 0; k < 300; k++ {
		d := make([]byte, rng.Intn(600))
		rng.Read(d)
		if k%3 == 0 && len(d) > 30 {
			copy(d, [][]byte{[]byte("II*\x00\x08\x00\x00\x00"), []byte("\xff\xd8\xff\xe1"), []byte("\x00\x00\x00\x18ftypcrx "), []byte("\x89PNG\r\n\x1a\n"), []byte("<x:xmpmeta "), []byte("\x00\x00\x00\x18ftypavif")}[k/3%6])
		}
		addCase(fileInput{Name: fmt.Sprintf("random#%d", k), Kind: "other", Data: d}, -1, "EOF", "seeded random bytes", uint32(k))
	}
	// (d') ISOBMFF file-type headers over the brand alphabet of the sniffer: exactly 24 bytes, and with a body behind them
	if !onlyBig {
		brands := []string{"mif1", "msf1", "heic", "heix", "hevc", "avif", "miaf", "crx ", "isom"}
		k := 0
		for _, mj := range brands {
			for _, c1 := range brands {
				for _, c2 := range brands {
					h := []byte("\x00\x00\x00\x18ftyp" + mj + "\x00\x00\x00\x00" + c1 + c2)
					for _, tailN := range []int{0, 100} {
						d := append(append([]byte{}, h...), make([]byte, tailN)...)
						in := fileInput{Name: fmt.Sprintf("ftyp:%s/%s,%s+%d", mj, c1, c2, tailN), Kind: "other", Data: d}
						for _, e := range []string{"imagetype.Buf", "imagetype.Scan", "imagetype.ReadAt", "imagetype.ScanBuf", "Decode"} {
							if (k+tailN)%2 == 0 || e != "Decode" {
								cases = append(cases, faultCase{in, e, -1, "EOF", "ftyp header over the sniffer's brand alphabet"})
							}
						}
						k++
					}
				}
			}
		}
	}
	// (e) XMP packets with one long token (element value, attribute value, tag name) across the reader's look-ahead windows
	for _, n := range []int{120, 300, 700, 1500, 1600, 6000} {
		long := strings.Repeat("v", n)
		for k, body := range []string{
			`<rdf:Description rdf:about="" xmlns:dc="http://purl.org/dc/elements/1.1/"><dc:format>` + long + `</dc:format></rdf:Description>`,
			`<rdf:Description rdf:about="" xmlns:tiff="http://ns.adobe.com/tiff/1.0/" tiff:Make="` + long + `" tiff:Model="m"/>`,
			`<rdf:Description rdf:about=""><x` + long + `:y>1</x` + long + `:y></rdf:Description>`,
			`<rdf:Description rdf:about="" ` + long + `>`,
		} {
			d := []byte(`<x:xmpmeta xmlns:x="adobe:ns:meta/"><rdf:RDF xmlns:rdf="http://www.w3.org/1999/02/22-rdf-syntax-ns#">` + body + `</rdf:RDF></x:xmpmeta>`)
			addCase(fileInput{Name: fmt.Sprintf("xmp-long-token#%d/%d", n, k), Kind: "xmp", Data: d}, -1, "EOF", fmt.Sprintf("XMP packet with a %d-byte token (form %d)", n, k), uint32(k))
		}
	}
	// (e') XMP numeric and rational properties with values on the boundaries of the integer widths a parser may narrow to
	if !onlyBig {
		vals := []string{"0/0", "1/0", "0/65536", "400/65536", "1/131072", "4294967296/1", "1/4294967296", "65535/65535", "65536", "256", "-1", "-32769", "+70000",
			"18446744073709551616", "9223372036854775808/3", "1e309", "0x10", "", " ", "/", "1/", "/1", "1//2", "1.5/2", "١٢"}
		props := []string{"exif:ExposureTime", "exif:FNumber", "exif:FocalLength", "exif:SubjectDistance", "exif:ExposureBiasValue", "aux:FlashCompensation", "exif:ISOSpeedRatings",
			"tiff:Orientation", "tiff:ImageWidth", "exif:MeteringMode", "exif:ExposureProgram", "xmp:Rating", "aux:LensID", "aux:ImageNumber", "exif:GPSLatitude", "exif:GPSAltitude",
			"exif:PixelXDimension", "xmp:CreateDate", "exif:DateTimeOriginal", "xmpMM:DocumentID"}
		for vi, v := range vals {
			var attrs, elems strings.Builder
			for pi, p := range props {
				if (pi+vi)%2 == 0 {
					attrs.WriteString(" " + p + `="` + v + `"`)
				} else {
					elems.WriteString("<" + p + ">" + v + "</" + p + ">")
				}
			}
			d := []byte(`<x:xmpmeta xmlns:x="adobe:ns:meta/"><rdf:RDF xmlns:rdf="http://www.w3.org/1999/02/22-rdf-syntax-ns#"><rdf:Description rdf:about="" xmlns:tiff="http://ns.adobe.com/tiff/1.0/" xmlns:exif="http://ns.adobe.com/exif/1.0/" xmlns:aux="http://ns.adobe.com/exif/1.0/aux/" xmlns:xmp="http://ns.adobe.com/xap/1.0/" xmlns:xmpMM="http://ns.adobe.com/xap/1.0/mm/"` + attrs.String() + `>` + elems.String() + `</rdf:Description></rdf:RDF></x:xmpmeta>`)
			addCase(fileInput{Name: fmt.Sprintf("xmp-numeric#%d", vi), Kind: "xmp", Data: d}, -1, "EOF", fmt.Sprintf("XMP packet whose numeric properties all read %q", v), uint32(vi))
		}
	}
	// (f) honest but large / repetitive files: the cases of the cost model Scale
	nscale, ok := addScaleCases(r, rng, onlyBig, addCase)
	if !ok {
		return nil, nil, false
	}
	info = map[string]interface{}{"plans_applied": nplans, "base_files": len(bases), "plans_emitted": len(plans), "scaled_inputs": nscale}
	return cases, info, true
}

// addScaleCases model-checks Scale (the linear design and its three deviations) and concretises every emitted
// (family, unit, size, repetitions) into a truthful file of that family.
func addScaleCases(r *core.Run, rng *rand.Rand, onlyBig bool, addCase func(in fileInput, cut int, fault, what string, salt uint32)) (int, bool) {
	for _, dev := range []string{"perUnit", "regrow", "rescan"} {
		s, err := core.RunTLC(core.TLCOpts{Module: "MC_Scale", Cfg: "Scale." + dev + ".cfg", Workers: 2, Timeout: 10 * time.Minute})
		if err != nil || s.Violated == "" {
			r.Machinery("Scale (%s deviation) was expected to violate a bound in the model: %v %s", dev, err, tail(s))
			s.Cleanup()
			return 0, false
		}
		r.Extra["deviation_"+dev] = "violates " + s.Violated
		s.Cleanup()
	}
	t, err := core.RunTLC(core.TLCOpts{Module: "MC_Scale", Cfg: "Scale.linear.cfg", Workers: 4, Timeout: 10 * time.Minute})
	defer t.Cleanup()
	if err != nil || !t.OK {
		r.Machinery("TLC run on Scale failed: %v %s", err, tail(t))
		return 0, false
	}
	r.AddTLC("Scale.linear", t)
	type sc struct {
		Fam  string `json:"fam"`
		Unit string `json:"unit"`
		Size int    `json:"size"`
		N    int    `json:"n"`
	}
	var scs []sc
	if _, err = core.ReadEmitted(filepath.Join(t.Dir, "emit.ndjson"), func(raw json.RawMessage) error {
		var c sc
		if e := json.Unmarshal(raw, &c); e != nil {
			return e
		}
		scs = append(scs, c)
		return nil
	}); err != nil || len(scs) == 0 {
		r.Machinery("reading emitted Scale cases: %v (n=%d)", err, len(scs))
		return 0, false
	}
	sort.Slice(scs, func(i, j int) bool {
		a, b := scs[i], scs[j]
		if a.Fam != b.Fam {
			return a.Fam < b.Fam
		}
		if a.Unit != b.Unit {
			return a.Unit < b.Unit
		}
		if a.Size != b.Size {
			return a.Size < b.Size
		}
		return a.N < b.N
	})
	tiff := gen.BuildFullTIFF(rand.New(rand.NewSource(r.Seed)), "LE")
	for i, c := range scs {
		d, kind := gen.BuildScaled(c.Fam, c.Unit, c.Size, c.N, tiff)
		if d == nil {
			r.Machinery("no generator for scale unit %s/%s", c.Fam, c.Unit)
			return 0, false
		}
		name := fmt.Sprintf("scale:%s/%s size=%d n=%d", c.Fam, c.Unit, c.Size, c.N)
		in := fileInput{Name: name, Kind: kind, Data: d, Gen: true}
		addCase(in, -1, "EOF", fmt.Sprintf("truthful file: %d x %s (%d bytes in all)", c.N, c.Unit, len(d)), uint32(i))
		// many pending records + a stream that ends at ANY position: every truncation point of the 64-fold files
		if c.N == 64 && len(d) <= 2500 && !onlyBig {
			for k := 0; k <= len(d); k++ {
				addCase(in, k, []string{"EOF", "ERR"}[k%2], fmt.Sprintf("truthful file of 64 x %s truncated at %d", c.Unit, k), uint32(k))
			}
		}
	}
	return len(scs), true
}

func runFaults(r *core.Run, prop string) {
	rng := rand.New(rand.NewSource(r.Seed))
	cases, info, ok := buildFaultCases(r, rng, false)
	if !ok {
		return
	}
	ops := make([]core.Op, len(cases))
	for i, c := range cases {
		ops[i] = core.Op{ID: i, Kind: "call", Data: c.in.Data, Cut: c.cut, Fault: c.fault, Args: callArgsJSON(c.entry), Trace: prop == "C02", Count: prop == "C02", NoRes: true}
	}
	obs, err := core.RunOps(ops, core.WorkerOpts{Stall: 8 * time.Second, Shards: 14})
	if err != nil {
		r.Machinery("worker: %v", err)
		return
	}
	maxRatio := 0.0
	for i := range obs {
		if obs[i].Skipped {
			continue // not executed: the run had already met many calls that do not return
		}
		o, op, c := &obs[i], &ops[i], &cases[i]
		r.Cases++
		desc := map[string]interface{}{"input": c.in.Name, "entry": c.entry, "cut": c.cut, "fault": c.fault, "malformation": c.what}
		n := len(c.in.Data)
		if c.cut >= 0 && c.cut < n {
			n = c.cut
		}
		o.Events = nil
		if prop == "C01" {
			switch {
			case o.Panic != "":
				r.Violate("panic:"+panicClass(o.Panic)+"@"+o.Site, fmt.Sprintf("%s panics (%s) on: %s [%s]", c.entry, o.Panic, c.what, c.in.Name), replayOf(op, o, desc))
			case o.Crash != "":
				first := o.Crash
				if k := strings.Index(first, "\n"); k > 0 {
					first = first[:k]
				}
				r.Violate("crash:"+c.entry+":"+c.in.Kind, fmt.Sprintf("%s: the process died (%s) on: %s [%s]", c.entry, first, c.what, c.in.Name), replayOf(op, o, desc))
			case o.Hang || o.Stall != "":
				r.Violate("noreturn:"+c.entry+":"+c.in.Kind, fmt.Sprintf("%s does not return on: %s [%s]", c.entry, c.what, c.in.Name), replayOf(op, o, desc))
			}
		} else {
			switch {
			case o.Hang || o.Stall != "":
				r.Violate("nonterm:"+c.entry+":"+c.in.Kind, fmt.Sprintf("%s does not return (%s) on: %s [%s]", c.entry, o.Stall, c.what, c.in.Name), replayOf(op, o, desc))
			case o.Req > int64(4*n+65536):
				r.Violate("linear:"+c.entry+":"+c.in.Kind, fmt.Sprintf("%s requested %d bytes from a reader that holds %d (bound 4*len+64KiB) on: %s [%s]", c.entry, o.Req, n, c.what, c.in.Name), replayOf(op, o, desc))
			}
			if n > 0 {
				if ratio := float64(o.Req-65536) / float64(n); ratio > maxRatio {
					maxRatio = ratio
				}
			}
		}
		if i%25000 == 0 {
			r.Sample(desc)
		}
	}
	for k, v := range info {
		r.Extra[k] = v
	}
	if prop == "C02" {
		r.Extra["max_(requested-64KiB)/len"] = round3(maxRatio)
	}
	r.Exhaustive = false
	r.Assumptions = append(r.Assumptions,
		"inputs <= 128 KiB (samples are cut there); stack exhaustion by deeply nested input (tens of MiB) is out of the bounds",
		"malformation plans rewrite one field (two in thorough) per file with a boundary value class; fields come from the generator's own field maps",
		"a call that the worker had to kill after 8 s without progress counts as not returning")
}

func round3(f float64) float64 { return float64(int64(f*1000+0.5)) / 1000 }
