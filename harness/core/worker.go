package core

import (
	"bufio"
	"encoding/json"
	"fmt"
	"os"
	"os/exec"
	"path/filepath"
	"sort"
	"strings"
	"sync"
	"sync/atomic"
	"time"
)

// Op is one operation to be executed on the real code by an isolated worker.
type Op struct {
	ID   int             `json:"id"`
	Kind string          `json:"k"`
	Data []byte          `json:"d,omitempty"`
	Args json.RawMessage `json:"a,omitempty"`
	// Cut >= 0 truncates the reader at Cut bytes and then fails with Fault ("EOF"|"ERR").
	Cut   int    `json:"cut"`
	Fault string `json:"fault,omitempty"`
	// Chunks is a read-size schedule for the scripted reader (nil = plain bytes.Reader).
	Chunks []int  `json:"chunks,omitempty"`
	Trace  bool   `json:"trace,omitempty"` // record hook events
	Level  string `json:"level,omitempty"`
	Heavy  bool   `json:"heavy,omitempty"`  // allow a long stall budget
	Script bool   `json:"script,omitempty"` // report the read-call script
	Count  bool   `json:"count,omitempty"`  // with Trace: hook events are only counted (stall detection), not kept
	NoRes  bool   `json:"nores,omitempty"`  // the op-specific result is not needed by the driver: do not send it back
}

// Obs is what the worker observed for one Op.
type Obs struct {
	ID      int               `json:"id"`
	Panic   string            `json:"panic,omitempty"`   // recovered Go panic (message + innermost library frame)
	Site    string            `json:"site,omitempty"`    // innermost library function on the panic stack
	Hang    bool              `json:"hang,omitempty"`    // worker had to be killed (no progress)
	Skipped bool              `json:"skipped,omitempty"` // not executed (the run had already met hangBudget hangs)
	Crash   string            `json:"crash,omitempty"`   // worker died (fatal error), tail of stderr
	Err     string            `json:"err,omitempty"`     // error text, "" = nil
	ErrIs   []string          `json:"errIs,omitempty"`   // sentinel errors matched by errors.Is
	R       json.RawMessage   `json:"r,omitempty"`       // op-specific result
	Std     int               `json:"std,omitempty"`     // bytes written to fd 1/2 during the op
	Req     int64             `json:"req,omitempty"`     // bytes requested from the underlying reader
	Reads   int               `json:"reads,omitempty"`   // number of Read calls
	Alloc   uint64            `json:"alloc,omitempty"`   // TotalAlloc delta
	Events  []json.RawMessage `json:"ev,omitempty"`      // hook events
	NS      int64             `json:"ns,omitempty"`
	Stall   string            `json:"stall,omitempty"`  // deterministic non-progress detected by hooks
	Script  []int             `json:"script,omitempty"` // sizes of the Read requests issued to the underlying reader
}

// Bad reports whether the op did not return normally.
func (o *Obs) Bad() bool { return o.Panic != "" || o.Hang || o.Crash != "" || o.Stall != "" }

// BadKind gives a short class for a non-returning op.
func (o *Obs) BadKind() string {
	switch {
	case o.Panic != "":
		return "panic"
	case o.Stall != "":
		return "stall"
	case o.Hang:
		return "hang"
	case o.Crash != "":
		return "crash"
	}
	return ""
}

// WorkerOpts configures a worker pool run.
type WorkerOpts struct {
	Bin     string        // worker binary (the harness itself); "" = os.Executable()
	Shards  int           // parallel worker processes (default 12)
	Stall   time.Duration // kill a worker that produced no result for this long (default 20 s)
	Env     []string      // extra environment
	OneProc bool          // run all ops in ONE process, in order (histories)
	Fresh   bool          // run every op in its own fresh process (pristine pools)
}

// RunOps executes ops in isolated worker processes and returns observations by op ID order.
func RunOps(ops []Op, wo WorkerOpts) ([]Obs, error) {
	if len(ops) == 0 {
		return nil, nil
	}
	if wo.Bin == "" {
		exe, err := os.Executable()
		if err != nil {
			return nil, err
		}
		wo.Bin = exe
	}
	if wo.Shards == 0 {
		wo.Shards = 12
	}
	if wo.Stall == 0 {
		wo.Stall = 20 * time.Second
	}
	if wo.OneProc {
		wo.Shards = 1
	}
	if wo.Fresh {
		var mu sync.Mutex
		var all []Obs
		var firstErr error
		var wg sync.WaitGroup
		sem := make(chan struct{}, wo.Shards)
		for i := range ops {
			wg.Add(1)
			sem <- struct{}{}
			go func(one []Op) {
				defer wg.Done()
				defer func() { <-sem }()
				obs, err := runShard(one, wo)
				mu.Lock()
				all = append(all, obs...)
				if err != nil && firstErr == nil {
					firstErr = err
				}
				mu.Unlock()
			}(ops[i : i+1])
		}
		wg.Wait()
		sort.Slice(all, func(i, j int) bool { return all[i].ID < all[j].ID })
		return all, firstErr
	}
	n := wo.Shards
	if n > len(ops) {
		n = len(ops)
	}
	// contiguous shards keep related cases together and the order deterministic
	per := (len(ops) + n - 1) / n
	var mu sync.Mutex
	var all []Obs
	var firstErr error
	var wg sync.WaitGroup
	for s := 0; s < n; s++ {
		lo, hi := s*per, (s+1)*per
		if lo >= len(ops) {
			break
		}
		if hi > len(ops) {
			hi = len(ops)
		}
		wg.Add(1)
		go func(part []Op) {
			defer wg.Done()
			obs, err := runShard(part, wo)
			mu.Lock()
			all = append(all, obs...)
			if err != nil && firstErr == nil {
				firstErr = err
			}
			mu.Unlock()
		}(ops[lo:hi])
	}
	wg.Wait()
	sort.Slice(all, func(i, j int) bool { return all[i].ID < all[j].ID })
	return all, firstErr
}

var confirmedHangs, hangsSeen int32

const hangBudget = 40

func runShard(ops []Op, wo WorkerOpts) ([]Obs, error) {
	var out []Obs
	rest := ops
	restarts := 0
	for len(rest) > 0 {
		if atomic.LoadInt32(&hangsSeen) >= hangBudget {
			// many calls have already been found not to return (each costs a full stall period): the verdict is
			// settled, the remaining calls of this run are not executed
			for _, op := range rest {
				out = append(out, Obs{ID: op.ID, Skipped: true, Err: "not executed: the run had already met many calls that do not return"})
			}
			break
		}
		got, died, hang, crashTail, err := runWorkerOnce(rest, wo)
		if err != nil {
			return out, err
		}
		out = append(out, got...)
		if !died {
			if len(got) != len(rest) {
				return out, fmt.Errorf("worker returned %d of %d results without dying", len(got), len(rest))
			}
			break
		}
		// culprit = first op without a result
		culprit := rest[len(got)]
		ob := Obs{ID: culprit.ID}
		if hang {
			// a verdict of non-termination must not depend on how busy the machine is: the call is repeated
			// alone in a fresh worker with four times the patience; only if it stalls again it is a hang
			// (once three hangs have been confirmed in this run the machine is not the cause: no more repeats)
			wo2 := wo
			wo2.Stall = 4 * wo.Stall
			if atomic.LoadInt32(&confirmedHangs) >= 3 || culprit.Kind == "concurrent" {
				ob.Hang = true // (a batch of concurrent calls that blocks once has blocked: schedules do not repeat)
			} else if got2, died2, _, _, err2 := runWorkerOnce([]Op{culprit}, wo2); err2 == nil && !died2 && len(got2) == 1 {
				ob = got2[0]
			} else {
				atomic.AddInt32(&confirmedHangs, 1)
				ob.Hang = true
			}
			if ob.Hang {
				atomic.AddInt32(&hangsSeen, 1)
			}
		} else {
			ob.Crash = crashTail
			if ob.Crash == "" {
				ob.Crash = "worker died"
			}
		}
		out = append(out, ob)
		rest = rest[len(got)+1:]
		restarts++
		if restarts > 2000 {
			return out, fmt.Errorf("too many worker restarts")
		}
	}
	return out, nil
}

func runWorkerOnce(ops []Op, wo WorkerOpts) (got []Obs, died, hang bool, crashTail string, err error) {
	dir, err := os.MkdirTemp("", "verif-w-")
	if err != nil {
		return nil, false, false, "", err
	}
	defer os.RemoveAll(dir)
	inPath := filepath.Join(dir, "in.ndjson")
	outPath := filepath.Join(dir, "out.ndjson")
	stdPath := filepath.Join(dir, "std.txt")
	f, err := os.Create(inPath)
	if err != nil {
		return nil, false, false, "", err
	}
	bw := bufio.NewWriterSize(f, 1<<20)
	enc := json.NewEncoder(bw)
	heavy := false
	for i := range ops {
		if err := enc.Encode(&ops[i]); err != nil {
			f.Close()
			return nil, false, false, "", err
		}
		if ops[i].Heavy {
			heavy = true
		}
	}
	bw.Flush()
	f.Close()
	if err := os.WriteFile(outPath, nil, 0o644); err != nil {
		return nil, false, false, "", err
	}
	stdf, err := os.Create(stdPath)
	if err != nil {
		return nil, false, false, "", err
	}
	cmd := exec.Command(wo.Bin, "worker", inPath, outPath)
	cmd.Stdout = stdf
	cmd.Stderr = stdf
	cmd.Env = append(os.Environ(), wo.Env...)
	if err := cmd.Start(); err != nil {
		stdf.Close()
		return nil, false, false, "", err
	}
	stdf.Close()
	done := make(chan error, 1)
	go func() { done <- cmd.Wait() }()
	stall := wo.Stall
	if heavy {
		stall *= 6
	}
	var lastSize int64 = -1
	lastChange := time.Now()
	tick := time.NewTicker(100 * time.Millisecond)
	defer tick.Stop()
	var waitErr error
loop:
	for {
		select {
		case waitErr = <-done:
			break loop
		case <-tick.C:
			if st, e := os.Stat(outPath); e == nil {
				if st.Size() != lastSize {
					lastSize = st.Size()
					lastChange = time.Now()
				} else if time.Since(lastChange) > stall {
					cmd.Process.Kill()
					<-done
					hang = true
					died = true
					break loop
				}
			}
		}
	}
	// read results
	rf, e := os.Open(outPath)
	if e != nil {
		return nil, false, false, "", e
	}
	defer rf.Close()
	sc := bufio.NewScanner(rf)
	sc.Buffer(make([]byte, 1<<20), 1<<28)
	for sc.Scan() {
		var o Obs
		if e := json.Unmarshal(sc.Bytes(), &o); e != nil {
			break // partial last line of a killed worker
		}
		got = append(got, o)
	}
	if !hang && (waitErr != nil || len(got) < len(ops)) {
		died = true
		b, _ := os.ReadFile(stdPath)
		s := string(b)
		if len(s) > 3000 {
			// keep the head of a fatal error (it names the cause) and a bit of the tail
			idx := strings.Index(s, "fatal error")
			if idx < 0 {
				idx = strings.Index(s, "panic:")
			}
			if idx < 0 {
				idx = len(s) - 3000
			}
			end := idx + 3000
			if end > len(s) {
				end = len(s)
			}
			s = s[idx:end]
		}
		crashTail = s
		if waitErr != nil {
			crashTail = waitErr.Error() + ": " + crashTail
		}
	}
	return got, died, hang, crashTail, nil
}
