// Package core is the property-independent part of the verification harness:
// running TLC, reading emitted cases, driving isolated workers over the real
// code, validating recorded traces, writing evidence and verdicts.
package core

import (
	"bufio"
	"bytes"
	"context"
	"encoding/json"
	"fmt"
	"io"
	"os"
	"os/exec"
	"path/filepath"
	"regexp"
	"strconv"
	"strings"
	"time"
)

const (
	tlaJar  = "/opt/veriftools/tla/tla2tools.jar"
	tlaDeps = "/opt/veriftools/tla/CommunityModules-deps.jar"
)

// VerifRoot is /verif (overridable for snapshots run by `vp run`).
func VerifRoot() string {
	if v := os.Getenv("VERIF_ROOT"); v != "" {
		return v
	}
	return "/verif"
}

// TLCOpts describes one TLC invocation.
type TLCOpts struct {
	Module   string            // module name (file <Module>.tla in spec/)
	Cfg      string            // cfg file name inside spec/cfg/
	Consts   map[string]string // textual overrides of "NAME = value" lines in the cfg
	Workers  int               // default 8
	Simulate string            // e.g. "num=1000" => -simulate num=1000
	Depth    int               // -depth for simulation
	Seed     int64             // -seed for simulation
	Timeout  time.Duration     // default 10 min
	Coverage bool              // -coverage 1
	DFS      bool              // StateDeque queue (trace validation with branching)
	Files    map[string][]byte // extra files to place in the scratch dir (traces)
	HeapMB   int               // -Xmx
	Deadlock bool              // pass -deadlock (i.e. do NOT check deadlock)
}

// TLCResult is what we parse out of a TLC run.
type TLCResult struct {
	Generated  int64
	Distinct   int64
	Diameter   int
	OK         bool   // "No error has been found"
	Violated   string // name of violated invariant / property, or ""
	ExitCode   int
	TimedOut   bool
	Output     string
	WallS      float64
	Dir        string           // scratch dir (caller removes via Cleanup)
	ActionCov  map[string]int64 // action name -> count (only with Coverage)
	ZeroCovers []string
}

var (
	reStates   = regexp.MustCompile(`(\d+) states generated, (\d+) distinct states found`)
	reDepth    = regexp.MustCompile(`The depth of the complete state graph search is (\d+)`)
	reInvViol  = regexp.MustCompile(`Invariant (\S+) is violated`)
	rePropViol = regexp.MustCompile(`(?:Temporal properties were violated|Action property (\S+) is violated|property (\S+) is violated)`)
	reCovAct   = regexp.MustCompile(`^<(\w+) line \d+, col \d+ to line \d+, col \d+ of module (\w+)>: (\d+):(\d+)`)
)

// RunTLC copies spec/*.tla and the cfg to a fresh scratch directory and runs TLC there.
func RunTLC(o TLCOpts) (*TLCResult, error) {
	root := VerifRoot()
	dir, err := os.MkdirTemp("", "verif-tlc-")
	if err != nil {
		return nil, err
	}
	res := &TLCResult{Dir: dir}
	tlas, _ := filepath.Glob(filepath.Join(root, "spec", "*.tla"))
	for _, f := range tlas {
		b, err := os.ReadFile(f)
		if err != nil {
			return res, err
		}
		if err := os.WriteFile(filepath.Join(dir, filepath.Base(f)), b, 0o644); err != nil {
			return res, err
		}
	}
	cfgb, err := os.ReadFile(filepath.Join(root, "spec", "cfg", o.Cfg))
	if err != nil {
		return res, err
	}
	cfgs := string(cfgb)
	for k, v := range o.Consts {
		re := regexp.MustCompile(`(?m)^(\s*)` + regexp.QuoteMeta(k) + `\s*=.*$`)
		if !re.MatchString(cfgs) {
			return res, fmt.Errorf("cfg %s has no constant %s to override", o.Cfg, k)
		}
		cfgs = re.ReplaceAllString(cfgs, "${1}"+k+" = "+v)
	}
	if err := os.WriteFile(filepath.Join(dir, "run.cfg"), []byte(cfgs), 0o644); err != nil {
		return res, err
	}
	for name, b := range o.Files {
		if err := os.WriteFile(filepath.Join(dir, name), b, 0o644); err != nil {
			return res, err
		}
	}
	if o.Workers == 0 {
		o.Workers = 8
	}
	if o.Timeout == 0 {
		o.Timeout = 10 * time.Minute
	}
	if o.HeapMB == 0 {
		o.HeapMB = 6000
	}
	args := []string{"-XX:+UseParallelGC", fmt.Sprintf("-Xmx%dm", o.HeapMB), "-Xss256m"}
	if o.DFS {
		args = append(args, "-Dtlc2.tool.queue.IStateQueue=StateDeque")
	}
	args = append(args, "-cp", tlaJar+":"+tlaDeps, "tlc2.TLC",
		"-metadir", filepath.Join(dir, "meta"), "-config", "run.cfg", "-workers", strconv.Itoa(o.Workers), "-noGenerateSpecTE")
	if o.Simulate != "" {
		args = append(args, "-simulate", o.Simulate)
		if o.Depth > 0 {
			args = append(args, "-depth", strconv.Itoa(o.Depth))
		}
		args = append(args, "-seed", strconv.FormatInt(o.Seed, 10))
	}
	if o.Coverage {
		args = append(args, "-coverage", "1")
	}
	if o.Deadlock {
		args = append(args, "-deadlock")
	}
	args = append(args, o.Module+".tla")
	ctx, cancel := context.WithTimeout(context.Background(), o.Timeout)
	defer cancel()
	cmd := exec.CommandContext(ctx, "java", args...)
	cmd.Dir = dir
	var out bytes.Buffer
	cmd.Stdout = &out
	cmd.Stderr = &out
	t0 := time.Now()
	err = cmd.Run()
	res.WallS = time.Since(t0).Seconds()
	res.Output = out.String()
	if ctx.Err() == context.DeadlineExceeded {
		res.TimedOut = true
	}
	if ee, ok := err.(*exec.ExitError); ok {
		res.ExitCode = ee.ExitCode()
	} else if err != nil {
		return res, err
	}
	parseTLC(res)
	return res, nil
}

func parseTLC(res *TLCResult) {
	out := res.Output
	if ms := reStates.FindAllStringSubmatch(out, -1); len(ms) > 0 {
		m := ms[len(ms)-1]
		res.Generated, _ = strconv.ParseInt(m[1], 10, 64)
		res.Distinct, _ = strconv.ParseInt(m[2], 10, 64)
	}
	if m := reDepth.FindStringSubmatch(out); m != nil {
		res.Diameter, _ = strconv.Atoi(m[1])
	}
	if m := reInvViol.FindStringSubmatch(out); m != nil {
		res.Violated = m[1]
	} else if m := rePropViol.FindStringSubmatch(out); m != nil {
		res.Violated = "temporal:" + m[1] + m[2]
	} else if strings.Contains(out, "Deadlock reached") {
		res.Violated = "deadlock"
	}
	res.OK = strings.Contains(out, "Model checking completed. No error has been found") ||
		(res.ExitCode == 0 && strings.Contains(out, "Finished in") && res.Violated == "" && !strings.Contains(out, "Error:"))
	res.ActionCov = map[string]int64{}
	sc := bufio.NewScanner(strings.NewReader(out))
	sc.Buffer(make([]byte, 1<<20), 1<<26)
	for sc.Scan() {
		if m := reCovAct.FindStringSubmatch(sc.Text()); m != nil {
			n, _ := strconv.ParseInt(m[4], 10, 64)
			if old, ok := res.ActionCov[m[1]]; !ok || n > old {
				res.ActionCov[m[1]] = n
			}
		}
	}
	for a, n := range res.ActionCov {
		if n == 0 {
			res.ZeroCovers = append(res.ZeroCovers, a)
		}
	}
}

// Cleanup removes the scratch directory of a TLC run.
func (r *TLCResult) Cleanup() {
	if r != nil && r.Dir != "" {
		os.RemoveAll(r.Dir)
	}
}

// Tail returns the last n lines of TLC output (for diagnostics).
func (r *TLCResult) Tail(n int) string {
	ls := strings.Split(strings.TrimRight(r.Output, "\n"), "\n")
	if len(ls) > n {
		ls = ls[len(ls)-n:]
	}
	return strings.Join(ls, "\n")
}

// ReadEmitted reads a file written by the specs' Emit invariants: one line per
// record; each line is either a JSON value or a JSON string that wraps the JSON
// value (CSVWrite("%1$s", <<ToJson(rec)>>, file) produces the latter).
// fn is called per record with the raw JSON of the record.
func ReadEmitted(path string, fn func(raw json.RawMessage) error) (int, error) {
	f, err := os.Open(path)
	if err != nil {
		return 0, err
	}
	defer f.Close()
	// TLC workers append concurrently; a record and its newline may be separate writes, so two
	// records can share a line. Records are decoded as a stream of JSON values, newlines ignored.
	dec := json.NewDecoder(bufio.NewReaderSize(f, 1<<20))
	n := 0
	for {
		var v json.RawMessage
		if err := dec.Decode(&v); err == io.EOF {
			break
		} else if err != nil {
			return n, fmt.Errorf("malformed emitted record %d: %v", n+1, err)
		}
		raw := v
		if len(v) > 0 && v[0] == '"' {
			var s string
			if e := json.Unmarshal(v, &s); e != nil {
				return n, fmt.Errorf("malformed emitted record %d: %v", n+1, e)
			}
			raw = json.RawMessage(s)
		}
		if !json.Valid(raw) {
			return n, fmt.Errorf("malformed emitted record %d: %.120s", n+1, string(raw))
		}
		n++
		if e := fn(raw); e != nil {
			return n, e
		}
	}
	return n, nil
}
