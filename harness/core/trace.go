package core

import (
	"bytes"
	"fmt"
	"strings"
	"time"
)

// TraceResult is the outcome of validating one concatenated trace file.
type TraceResult struct {
	Accepted bool
	Matched  int // number of trace lines consumed on the longest behaviour
	Lines    int
	InvViol  string // invariant violated while replaying the trace ("" if none)
	TLC      *TLCResult
}

// ValidateTrace runs a Trace_* module over the given ndjson lines (one event per line).
// The trace spec must read "trace.ndjson" and accept by POSTCONDITION on the diameter.
func ValidateTrace(module, cfg string, lines [][]byte, dfs bool, timeout time.Duration) (*TraceResult, error) {
	var buf bytes.Buffer
	for _, l := range lines {
		buf.Write(bytes.TrimSpace(l))
		buf.WriteByte('\n')
	}
	if timeout == 0 {
		timeout = 10 * time.Minute
	}
	res, err := RunTLC(TLCOpts{HeapMB: 3500, Module: module, Cfg: cfg, Workers: 1, Timeout: timeout, DFS: dfs,
		Files: map[string][]byte{"trace.ndjson": buf.Bytes()}})
	tr := &TraceResult{Lines: len(lines), TLC: res}
	if err != nil {
		return tr, err
	}
	if res.TimedOut {
		return tr, fmt.Errorf("trace validation timed out")
	}
	tr.Matched = res.Diameter - 1
	if tr.Matched < 0 {
		tr.Matched = 0
	}
	if res.Violated != "" && !strings.HasPrefix(res.Violated, "temporal") {
		tr.InvViol = res.Violated
	}
	postFalse := strings.Contains(res.Output, "postcondition") || strings.Contains(res.Output, "Postcondition") || strings.Contains(res.Output, "POSTCONDITION")
	tr.Accepted = res.Violated == "" && !postFalse && tr.Matched == len(lines) && !strings.Contains(res.Output, "Error:")
	if !tr.Accepted && tr.Matched == len(lines) && res.Violated == "" && !postFalse {
		return tr, fmt.Errorf("trace validation failed without a rejection: %s", res.Tail(15))
	}
	return tr, nil
}
