package core

import (
	"crypto/sha1"
	"encoding/hex"
	"encoding/json"
	"fmt"
	"os"
	"path/filepath"
	"sort"
	"strings"
	"time"
)

// Finding is one entry of /verif/known_findings.json.
type Finding struct {
	Property string `json:"property"`
	Key      string `json:"key"`
	Status   string `json:"status"` // "known" | "fixed"
	Commit   string `json:"commit,omitempty"`
	What     string `json:"what"`
}

type findingsFile struct {
	Findings []Finding `json:"findings"`
}

// LoadFindings reads the committed known-findings file (never written at run time).
func LoadFindings() ([]Finding, error) {
	b, err := os.ReadFile(filepath.Join(VerifRoot(), "known_findings.json"))
	if err != nil {
		if os.IsNotExist(err) {
			return nil, nil
		}
		return nil, err
	}
	var ff findingsFile
	if err := json.Unmarshal(b, &ff); err != nil {
		return nil, fmt.Errorf("known_findings.json: %v", err)
	}
	return ff.Findings, nil
}

// Violation is one distinct violation observed on the real code.
type Violation struct {
	Key    string `json:"key"`
	What   string `json:"what"`
	Replay string `json:"replay"`
	Count  int    `json:"count"`
	Known  bool   `json:"known"`
}

// Run accumulates what one check run covered and found.
type Run struct {
	Prop  string
	Tier  string
	Seed  int64
	start time.Time

	States      int64
	Transitions int64
	Traces      int // traces accepted by a trace spec
	Cases       int // spec-emitted cases replayed on the real code
	Events      int
	Exhaustive  bool
	Samples     []interface{}
	Extra       map[string]interface{}
	Assumptions []string
	Rule        string

	viol      map[string]*Violation
	order     []string
	findings  []Finding
	machinery []string
}

// NewRun starts a run.
func NewRun(prop, tier string, seed int64) (*Run, error) {
	f, err := LoadFindings()
	if err != nil {
		return nil, err
	}
	return &Run{Prop: prop, Tier: tier, Seed: seed, start: time.Now(), Extra: map[string]interface{}{},
		viol: map[string]*Violation{}, findings: f, Exhaustive: true}, nil
}

// AddTLC adds the counters of a TLC run.
func (r *Run) AddTLC(name string, t *TLCResult) {
	r.States += t.Distinct
	r.Transitions += t.Generated
	runs, _ := r.Extra["tlc_runs"].([]interface{})
	rec := map[string]interface{}{"name": name, "generated": t.Generated, "distinct": t.Distinct, "diameter": t.Diameter, "wall_s": round2(t.WallS)}
	if len(t.ActionCov) > 0 {
		rec["action_coverage"] = t.ActionCov
	}
	r.Extra["tlc_runs"] = append(runs, rec)
}

// Sample keeps at most 6 samples.
func (r *Run) Sample(v interface{}) {
	if len(r.Samples) < 6 {
		r.Samples = append(r.Samples, v)
	}
}

// Machinery records a machinery problem (exit 2).
func (r *Run) Machinery(format string, a ...interface{}) {
	r.machinery = append(r.machinery, fmt.Sprintf(format, a...))
}

// HasMachinery reports whether a machinery problem was recorded.
func (r *Run) HasMachinery() bool { return len(r.machinery) > 0 }

// Violate records a violation observed on the real code. key identifies the defect
// (not the case); replay is any JSON-able value that reproduces it.
func (r *Run) Violate(key, what string, replay interface{}) {
	if v, ok := r.viol[key]; ok {
		v.Count++
		return
	}
	what = strings.Map(func(c rune) rune { // values quoted from a decode may hold anything: keep the report one printable line
		if c < 0x20 || c == 0x7f || c == 0xFFFD {
			return '?'
		}
		return c
	}, what)
	v := &Violation{Key: key, What: what, Count: 1}
	for _, f := range r.findings {
		if f.Property == r.Prop && f.Key == key && f.Status == "known" {
			v.Known = true
		}
	}
	dir := filepath.Join(VerifRoot(), "out", "replay", r.Prop)
	os.MkdirAll(dir, 0o755)
	h := sha1.Sum([]byte(key))
	p := filepath.Join(dir, hex.EncodeToString(h[:6])+".json")
	b, _ := json.MarshalIndent(map[string]interface{}{"property": r.Prop, "key": key, "what": what, "tier": r.Tier, "seed": r.Seed, "replay": replay}, "", " ")
	os.WriteFile(p, b, 0o644)
	v.Replay = p
	r.viol[key] = v
	r.order = append(r.order, key)
}

// NumViolations returns the number of distinct unlisted violations.
func (r *Run) NumViolations() int {
	n := 0
	for _, v := range r.viol {
		if !v.Known {
			n++
		}
	}
	return n
}

func round2(f float64) float64 { return float64(int64(f*100+0.5)) / 100 }

// Finish writes the evidence file, prints the verdict lines and returns the exit code.
func (r *Run) Finish() int {
	wall := time.Since(r.start).Seconds()
	keys := append([]string(nil), r.order...)
	sort.Strings(keys)
	var knownSeen []string
	var vlist []interface{}
	nviol := 0
	for _, k := range keys {
		v := r.viol[k]
		if v.Known {
			fmt.Printf("KNOWN-FINDING: property=%s %s (%s; %d occurrence(s))\n", r.Prop, v.Key, v.What, v.Count)
			knownSeen = append(knownSeen, v.Key)
		} else {
			nviol++
			fmt.Printf("VIOLATION property=%s replay=%s\n", r.Prop, v.Replay)
			fmt.Printf("  key=%s what=%s occurrences=%d\n", v.Key, v.What, v.Count)
		}
		vlist = append(vlist, v)
	}
	cov := map[string]interface{}{
		"states":                        r.States,
		"transitions":                   r.Transitions,
		"traces_validated_against_impl": r.Traces + r.Cases,
		"traces_accepted":               r.Traces,
		"cases_replayed":                r.Cases,
		"events":                        r.Events,
		"samples":                       r.Samples,
		"exhaustive":                    r.Exhaustive,
		"rule":                          r.Rule,
		"known_findings_seen":           knownSeen,
		"violation_list":                vlist,
	}
	for k, v := range r.Extra {
		cov[k] = v
	}
	if len(r.Samples) == 0 {
		cov["samples"] = []interface{}{"(none: run aborted before any case)"}
	}
	if len(r.machinery) > 0 {
		cov["machinery_problems"] = r.machinery
	}
	ev := map[string]interface{}{
		"property_id": r.Prop,
		"tier":        r.Tier,
		"seed":        r.Seed,
		"level":       "model_checking",
		"coverage":    cov,
		"assumptions": r.Assumptions,
		"wall_s":      round2(wall),
		"violations":  nviol,
	}
	if r.Assumptions == nil {
		ev["assumptions"] = []string{}
	}
	b, _ := json.MarshalIndent(ev, "", " ")
	evDir := filepath.Join(VerifRoot(), "evidence")
	if !strings.HasPrefix(r.Prop, "C") {
		evDir = filepath.Join(VerifRoot(), "growth", "evidence") // specification growth beyond the listed properties: not part of the claimed evidence
	}
	if d := os.Getenv("VERIF_EVIDENCE_DIR"); d != "" {
		evDir = d // runs against a deliberately changed tree (tools/try_mutant.sh) keep their evidence apart
	}
	os.MkdirAll(evDir, 0o755)
	if err := os.WriteFile(filepath.Join(evDir, r.Prop+".json"), append(b, '\n'), 0o644); err != nil {
		fmt.Fprintf(os.Stderr, "cannot write evidence: %v\n", err)
		return 2
	}
	if nviol > 0 {
		fmt.Printf("RESULT property=%s tier=%s seed=%d: %d violation(s), %d known finding(s), states=%d cases=%d traces=%d wall=%.1fs\n",
			r.Prop, r.Tier, r.Seed, nviol, len(knownSeen), r.States, r.Cases, r.Traces, wall)
		return 1
	}
	if len(r.machinery) > 0 {
		fmt.Printf("MACHINERY property=%s: %s\n", r.Prop, strings.Join(r.machinery, " | "))
		return 2
	}
	fmt.Printf("RESULT property=%s tier=%s seed=%d: OK, %d known finding(s), states=%d transitions=%d cases=%d traces=%d events=%d wall=%.1fs\n",
		r.Prop, r.Tier, r.Seed, len(knownSeen), r.States, r.Transitions, r.Cases, r.Traces, r.Events, wall)
	return 0
}
